#!/bin/bash
# usage: tools/seed_matrix.sh [name...]
# For every seeded change under /verif/seeded (or the named ones): applies its patch to a scratch copy of /repo's
# current tree (never /repo itself), runs the quick check of the property it breaks (plus any extra checks listed in
# meta.json "also_checked"), and records whether a VIOLATION was reported. Writes /verif/seeded/RESULTS.md.
cd "$(dirname "$0")/.."
names=("$@"); [ ${#names[@]} -eq 0 ] && names=($(ls seeded | grep -v RESULTS.md | sort))
out=${OUT:-seeded/RESULTS.md}
{
echo "# Seeded changes vs checks (quick tier), /repo HEAD $(git -C /repo rev-parse --short HEAD), $(date -u +%F)"
echo
echo "| seed | property | check run | applies | result |"
echo "|------|----------|-----------|---------|--------|"
} > $out.tmp
for n in "${names[@]}"; do
  [ -f seeded/$n/patch.diff ] || continue
  prop=$(jq -r .property seeded/$n/meta.json)
  extra=$(jq -r '.also_checked // [] | join(" ")' seeded/$n/meta.json)
  for id in $prop $extra; do
    log=$(mktemp)
    tools/try_seed.sh seeded/$n/patch.diff $id quick > $log 2>&1; rc=$?
    if grep -q "patch does not apply" $log; then applies=no; res="n/a"; 
    elif [ $rc -eq 1 ] && grep -q "^VIOLATION property=$id" $log; then applies=yes; res="**caught** ($(grep -c '^VIOLATION' $log)+ violations; first: $(grep -m1 '^  key:' $log | cut -c8-120))";
    elif [ $rc -eq 0 ]; then applies=yes; res="MISSED (exit 0)";
    else applies=yes; res="exit $rc without VIOLATION (harness)"; fi
    echo "| $n | $prop | $id | $applies | $res |" >> $out.tmp
    echo "$n $id: $res" | cut -c1-160
    rm -f $log
  done
done
mv $out.tmp $out
