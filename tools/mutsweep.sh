#!/bin/bash
# usage: tools/mutsweep.sh <out.tsv> <stride> <offset> <file> <check>[,<check>...] [<file> <checks> ...]
# Self-test of the checks (never a verdict): for every <stride>-th syntactic mutant (bin/mutgen) of each named source file of
# /repo, in a scratch copy (never /repo itself): build; run the repository's test suite; if the suite still passes, run the
# listed checks (quick tier, VERIF_REPO=<copy>) in order until one reports a VIOLATION. One line per mutant in <out.tsv>:
#   file  index  line  kind  text  verdict         verdict in {nobuild, suite, caught:<id>, SURVIVED, harness:<id>:<rc>}
# Mutants that only drop a logging call are skipped.
set -u
unset GOFLAGS GOSUMDB GOTOOLCHAIN GOWORK; export GOPROXY=off
V=$(cd "$(dirname "$0")/.." && pwd)
out=$1; stride=$2; offset=$3; shift 3
export VERIF_WORKERS=${VERIF_WORKERS:-4}
while [ $# -ge 2 ]; do
  file=$1; checks=${2//,/ }; shift 2
  $V/bin/mutgen list /repo/$file | while IFS=$'\t' read -r idx line kind text; do
    [ $(( (idx + offset) % stride )) -eq 0 ] || continue
    case "$kind:$text" in drop-call:\"log*|drop-call:\"*[Ll]og.*|drop-call:\"*.Msg*|drop-call:\"fmt.Print*|drop-call:\"*Logger*) continue;; esac
    grep -qP "^\Q$file\E\t$idx\t" $out 2>/dev/null && continue
    d=$(mktemp -d /tmp/mutsweep.XXXXXX)
    rsync -a --exclude .git /repo/ $d/repo/
    $V/bin/mutgen apply /repo/$file $idx $d/repo/$file
    verdict=SURVIVED
    if ! (cd $d/repo && go build ./... ) >/dev/null 2>&1; then verdict=nobuild
    elif ! (cd $d/repo && go vet ./${file%/*}/ ) >/dev/null 2>&1; then verdict=nobuild
    elif ! (cd $d/repo && timeout 600 go test -vet=off -count=1 ./... ) >/dev/null 2>&1; then verdict=suite
    else
      for id in $checks; do
        ev=$d/ev; mkdir -p $ev
        VERIF_REPO=$d/repo VERIF_EVIDENCE_DIR=$ev timeout 1800 $V/bin/mcx check $id --tier quick > $d/log 2>&1; rc=$?
        if [ $rc -eq 1 ] && grep -q "^VIOLATION property=$id" $d/log; then verdict="caught:$id"; break
        elif [ $rc -ne 0 ]; then verdict="harness:$id:$rc"; cp $d/log /tmp/mutsweep-harness-$(basename $file)-$idx-$id.log; break; fi
      done
    fi
    printf '%s\t%s\t%s\t%s\t%s\t%s\n' "$file" "$idx" "$line" "$kind" "$text" "$verdict" >> $out
    rm -rf $d
  done
done
echo "sweep done: $out"
