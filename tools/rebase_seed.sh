#!/bin/bash
# usage: tools/rebase_seed.sh <seed-name>...
# Re-creates seeded/<name>/patch.diff against /repo HEAD when fix commits moved its context: applies the stored
# patch with fuzz in a scratch worktree, checks that the tree builds, and rewrites the patch from `git diff`.
# The seed has to be confirmed again afterwards (tools/confirm_seed.sh with the seed copied to /tmp/seedout).
set -u
for name in "$@"; do
  src=/verif/seeded/$name
  wt=$(mktemp -d /tmp/rebase.XXXXXX); rmdir $wt
  git -C /repo worktree add --detach $wt HEAD >/dev/null 2>&1 || { echo "$name: worktree failed"; continue; }
  if (cd $wt && patch -p1 -s --fuzz=3 --no-backup-if-mismatch < $src/patch.diff >/tmp/rebase-$name.log 2>&1 && GOPROXY=off go build ./... >>/tmp/rebase-$name.log 2>&1 && { [ ! -d tools ] || ! git diff --name-only | grep -q '^tools/' || (cd tools && GOPROXY=off go build ./...) ; }); then
    (cd $wt && git diff) > $src/patch.diff.new && mv $src/patch.diff.new $src/patch.diff && echo "$name: rebased"
  else
    echo "$name: NEEDS MANUAL REBASE (see /tmp/rebase-$name.log)"
  fi
  git -C /repo worktree remove --force $wt >/dev/null 2>&1; rm -rf $wt
done
