#!/usr/bin/env python3
"""Generates /verif/MANIFEST.json from the table in tools/checks.json and validates it."""
import json, os, sys
root = os.path.dirname(os.path.dirname(os.path.abspath(__file__)))
tbl = json.load(open(os.path.join(root, 'tools', 'checks.json')))
props = [json.loads(l)['id'] for l in open(os.path.join(root, 'properties.jsonl'))]
checks = []
for pid in props:
    c = tbl['checks'].get(pid)
    if not c:
        continue
    checks.append({
        "property_id": pid,
        "quick_cmd": "./bin/mcx check %s --tier quick" % pid,
        "thorough_cmd": "./bin/mcx check %s --tier thorough" % pid,
        "evidence_file": "/verif/evidence/%s.json" % pid,
        "replay_cmd_template": "./bin/mcx replay {path}",
        "engine": c["engine"],
        "level_claimed": {"category": "model_checking", "text": c["level"], "design_ref": "DESIGN.md §4 " + pid},
        "level_note": c["note"],
        "technique": c["technique"],
    })
na = [{"property_id": p, "reason": tbl['not_applicable'].get(p, "check not built yet in this session; see DESIGN.md §4 for the planned bounded exhaustive exploration")} for p in props if p not in tbl['checks']]
m = {
    "version": 1,
    "setup_cmd": "./setup.sh",
    "hooks": {
        "guard": "verif",
        "enable": "no source hooks are needed: every check rsyncs /repo (or $VERIF_REPO) into a scratch copy and applies its instrumentation (driver main packages under internal/verifx, the map-range rewrite) to that copy only, then builds there in workspace mode",
        "baseline_off_cmd": "cd /repo && GOPROXY=off go test -vet=off -count=1 ./... && (cd tools && GOPROXY=off go test -vet=off -count=1 ./...)",
        "source_commits": [],
        "add_only": True,
    },
    "engines": tbl["engines"],
    "checks": checks,
    "notes": tbl["notes"],
    "not_applicable": na,
}
out = os.path.join(root, 'MANIFEST.json')
json.dump(m, open(out, 'w'), indent=1)
open(out, 'a').write("\n")
try:
    import jsonschema
    jsonschema.validate(m, json.load(open('/root/.vp/MANIFEST.schema.json')))
    print("MANIFEST.json valid;", len(checks), "checks,", len(na), "not_applicable")
except ImportError:
    print("jsonschema not importable; run with python3-vt")
