#!/bin/bash
# usage: tools/try_seed.sh <patch.diff> <check-id> [tier]
# Applies the patch to a scratch copy of /repo (never /repo itself), runs the check against it
# (VERIF_REPO), prints the tail of its output and the exit code, removes the copy.
set -u
patch=$(readlink -f "$1"); id=$2; tier=${3:-quick}
d=$(mktemp -d /tmp/seedtry.XXXXXX)
rsync -a --exclude .git /repo/ $d/repo/
(cd $d/repo && (git init -q . >/dev/null 2>&1; git apply --whitespace=nowarn "$patch" 2>/dev/null || patch -p1 -s --fuzz=3 < "$patch")) || { echo "patch does not apply"; rm -rf $d; exit 3; }
rm -rf $d/repo/.git
cd "$(dirname "$0")/.."
mkdir -p /tmp/seedtry-ev
VERIF_REPO=$d/repo VERIF_EVIDENCE_DIR=/tmp/seedtry-ev ./bin/mcx check $id --tier $tier 2>&1 | tail -${TAIL:-400}
rc=${PIPESTATUS[0]}
echo "exit=$rc"
rm -rf $d
exit $rc
