#!/usr/bin/env python3
"""usage: bootstrap_known.py <property> <keys-dump> [filter-substring]
Adds one prefix known-finding entry '<case>|<template>|*' per failing (case, template) of a VERIF_DUMP_KEYS dump.
Used by hand while classifying violations; the file is never written by a check at run time."""
import json, sys, collections
prop, dump = sys.argv[1], sys.argv[2]
flt = sys.argv[3] if len(sys.argv) > 3 else ''
p = '/verif/known_findings.json'
k = json.load(open(p))
have = {(f['property'], f['key']) for f in k['findings']}
seen = collections.OrderedDict()
for line in open(dump):
    key, _, what = line.rstrip('\n').partition('\t')
    parts = key.split('|')
    if len(parts) < 3 or flt not in key:
        continue
    pk = parts[0] + '|' + parts[1] + '|*'
    seen.setdefault(pk, parts[2])
def explain(case, tmpl, sig):
    if 'mockp.' in case:
        return "a source package named `mock` in a signature collides with " + ("the template's hard-coded import alias `mock` for testify" if tmpl == 'testify' else "the receiver name `mock` of the generated methods")
    if case.startswith('name:param:') or case.startswith('name:result:') or case.startswith('pair:param:') or case.startswith('pair:result:'):
        return "a parameter/result with this name is captured by (or captures) an identifier the template uses itself (receiver, local variable, predeclared function or type name)"
    if case.startswith('name:typeparam:') or case.startswith('form:generic'):
        return "a type parameter with this name collides with an identifier the template uses itself or with an import qualifier (the declaration is renamed but the signatures are not)"
    if case == 'name:case twins':
        return "parameters whose names differ only in the case of the first letter map to the same exported field name in the call record"
    return "generated file does not compile"
n = 0
for pk, sig in seen.items():
    if (prop, pk) in have:
        continue
    case, tmpl, _ = pk.split('|')
    k['findings'].append({"property": prop, "status": "known", "key": pk,
        "what": "%s mock for corpus case %r does not compile (%s): %s" % (tmpl, case, sig.strip() or 'redeclaration', explain(case, tmpl, sig))})
    n += 1
json.dump(k, open(p, 'w'), indent=1, ensure_ascii=False)
print("added", n)
