#!/bin/bash
# validates every evidence file against the schema
cd "$(dirname "$0")/.."
python3-vt - <<'PY'
import json, glob, jsonschema, sys
sch = json.load(open('/root/.vp/EVIDENCE.schema.json'))
bad = 0
for f in sorted(glob.glob('evidence/*.json')):
    try:
        jsonschema.validate(json.load(open(f)), sch); print("ok ", f)
    except Exception as e:
        bad += 1; print("BAD", f, str(e)[:300])
sys.exit(1 if bad else 0)
PY
