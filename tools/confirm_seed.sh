#!/bin/bash
# usage: tools/confirm_seed.sh <name>   (name like C07-a; reads /tmp/seedout/<name>/{patch.diff,demo.sh,notes.md})
# Confirms in a fresh scratch worktree of /repo (removed afterwards):
#   1. patch applies at HEAD   2. repository test suite passes with it
#   3. demo.sh fails (exit 1) on the changed tree, 2 runs   4. demo.sh passes (exit 0) on the unchanged tree
# On success copies the seed to /verif/seeded/<name>/ with a meta.json skeleton.
set -u
unset GOFLAGS GOSUMDB GOTOOLCHAIN GOWORK; export GOPROXY=off
name=$1; src=/tmp/seedout/$name; prop=${name%%-*}
wt=$(mktemp -d /tmp/confirm.XXXXXX); rmdir $wt
git -C /repo worktree add --detach $wt HEAD >/dev/null 2>&1 || { echo "worktree failed"; exit 2; }
cleanup() { git -C /repo worktree remove --force $wt >/dev/null 2>&1; rm -rf $wt; }
trap cleanup EXIT
res() { echo "$name: $*"; }
chmod +x $src/demo.sh
bash $src/demo.sh $wt >/tmp/confirm-$name.clean.log 2>&1; rc_clean=$?
git -C $wt apply $src/patch.diff || { res "PATCH DOES NOT APPLY"; exit 1; }
(cd $wt && GOPROXY=off go build ./... && GOPROXY=off go test -vet=off -count=1 ./... ) >/tmp/confirm-$name.test.log 2>&1; rc_test=$?
if git -C $wt diff --name-only | grep -q '^tools/'; then (cd $wt/tools && GOPROXY=off go build ./... && GOPROXY=off go test -vet=off -count=1 ./...) >>/tmp/confirm-$name.test.log 2>&1 || rc_test=1; fi
bash $src/demo.sh $wt >/tmp/confirm-$name.mut1.log 2>&1; rc_m1=$?
bash $src/demo.sh $wt >/tmp/confirm-$name.mut2.log 2>&1; rc_m2=$?
git -C $wt checkout -- . ; git -C $wt status --short | grep -q . && res "WARNING: demo wrote into the tree"
res "suite=$rc_test demo_clean=$rc_clean demo_mutant=$rc_m1,$rc_m2"
if [ $rc_test -eq 0 ] && [ $rc_clean -eq 0 ] && [ $rc_m1 -eq 1 ] && [ $rc_m2 -eq 1 ]; then
  d=/verif/seeded/$name; mkdir -p $d
  cp $src/patch.diff $d/patch.diff
  for f in $src/*; do b=$(basename $f); case $b in patch.diff|mycheck.log) ;; *) cp -r $f $d/ ;; esac; done
  [ -f $d/meta.json ] || cat > $d/meta.json <<EOF
{
 "property": "$prop",
 "needs_to_manifest": "",
 "confirmed": "tools/confirm_seed.sh $name: patch applies at /repo HEAD $(git -C /repo rev-parse --short HEAD); go test -vet=off -count=1 ./... passes with it; demo.sh exits 1 on the changed tree (2 runs) and 0 on the unchanged tree",
 "caught_by": ""
}
EOF
  res "CONFIRMED -> $d"
else
  res "NOT CONFIRMED (see /tmp/confirm-$name.*.log)"
fi
