// Package shapes is the input half of engine E2: a grammar of Go type
// expressions, signature forms, identifier alphabets and interface forms from
// which scratch source packages are generated. Every case is one interface in
// package src and carries an id that names its deviation from the baseline
// interface `interface{ M(a int) int }`.
package shapes

import (
	"fmt"
	"sort"
	"strings"
)

// Case is one interface declaration (plus optional extra declarations).
type Case struct {
	ID         string // e.g. "shape:param:[]dep.T"
	Name       string // interface name in package src
	Decl       string // full declaration text
	TypeParams int    // number of type parameters
	TArgs      [][]string // admissible type-argument tuples (source-package-relative spelling, e.g. "int", "src.LT") for generic interfaces
	InPkgOnly  bool   // mentions unexported source types: only for in-package placements
	Isolated   bool   // touches file-global names of the templates (imports named mock/sync/fmt): generated alone so that a failure cannot poison other cases
	Methods    []string // method names of the full method set (for C02 bookkeeping)
	TParamDecl string   // type parameter list as written, e.g. "[K comparable, V any]" ("" if not generic)
	Variadic   map[string]bool // method name -> variadic
}

const Prelude = `package src

import (
	"context"
	"io"
	"net/http"
	"time"
	"unsafe"

	"example.com/m/dep"
	dep2 "example.com/m/dep2"
	dep3 "example.com/m/dep3"
	fmtp "example.com/m/fmtp"
	mockp "example.com/m/mockp"
	nhttp "example.com/m/nhttp"
	syncp "example.com/m/syncp"
)

var (
	_ context.Context
	_ io.Reader
	_ http.Header
	_ time.Duration
	_ unsafe.Pointer
	_ dep.T
	_ dep2.T
	_ dep3.T
	_ fmtp.F
	_ mockp.M
	_ nhttp.X
	_ syncp.S
)

type LT struct{ N int }

// a type whose name starts with a letter that takes more than one byte
type Ärger struct{ N int }

type MyInt int

// named like the names a generator is likely to invent for type parameters
type T0 int

type LI interface{ Foo() int }

// a DEFINED type whose underlying type is the empty interface (not identical to any / interface{}), and an alias of it
type LE interface{}

type LEA = interface{}

type LG[T any] struct{ V T }

type LA = dep.T

type lt struct{ n int }

type LIG[T any] interface{ Get() T }

type LEmb interface {
	LI
	Bar(LT) error
}

// only LClock's own method mentions package time: a type that merely embeds LClock needs no import of it
type LClock interface{ Now() time.Time }
`

var HelperFiles = map[string]string{
	"dep/dep.go": `package dep

type T struct{ N int }

type G[X any] struct{ V X }

type I interface{ DepM(T) int }

type IG[X any] interface{ DepG(X) X }

type C interface{ ~int | ~string }

type CM interface {
	comparable
	String() string
}

type Str string

func (s Str) String() string { return string(s) }
`,
	"dep2/dep.go":   "package dep\n\ntype T struct{ S string }\n",
	"dep3/dep.go":   "package dep\n\ntype T struct{ B bool }\n",
	"nhttp/http.go": "package http\n\ntype X struct{ N int }\n",
	"mockp/mock.go": "package mock\n\ntype M struct{ N int }\n",
	"syncp/sync.go": "package sync\n\ntype S struct{ N int }\n",
	"fmtp/fmt.go":   "package fmt\n\ntype F struct{ N int }\n",
}

type atom struct {
	expr       string
	comparable bool
	tparam     bool
	inPkg      bool
}

var atoms = []atom{
	{"int", true, false, false}, {"string", true, false, false}, {"bool", true, false, false}, {"error", true, false, false}, {"any", true, false, false},
	{"byte", true, false, false}, {"unsafe.Pointer", true, false, false}, {"LT", true, false, false}, {"LI", true, false, false}, {"LG[int]", true, false, false},
	{"LA", true, false, false}, {"dep.T", true, false, false}, {"dep2.T", true, false, false}, {"io.Reader", true, false, false}, {"context.Context", true, false, false},
	{"time.Duration", true, false, false}, {"http.Header", false, false, false}, {"nhttp.X", true, false, false}, {"mockp.M", true, false, false}, {"syncp.S", true, false, false},
	{"fmtp.F", true, false, false}, {"T", false, true, false}, {"lt", true, false, true}, {"dep.IG[LT]", true, false, false},
	// a generic type of the source package instantiated with a type of another package
	{"LG[dep.T]", true, false, false}, {"LG[time.Duration]", true, false, false},
}

var rareAtoms = map[string]bool{"bool": true, "byte": true, "dep2.T": true, "nhttp.X": true, "mockp.M": true, "syncp.S": true, "fmtp.F": true, "lt": true,
	"time.Duration": true, "context.Context": true, "dep.IG[LT]": true, "LG[time.Duration]": true}

// representative atoms for deeper nesting (one per import class)
var deepAtoms = []atom{{"int", true, false, false}, {"dep.T", true, false, false}, {"LT", true, false, false}, {"io.Reader", true, false, false}, {"T", false, true, false}, {"dep2.T", true, false, false}}

type ctor struct {
	name string
	f    func(x string) string
	key  bool // uses x as map key (needs comparable)
}

var ctors = []ctor{
	{"ptr", func(x string) string { return "*" + x }, false},
	{"slice", func(x string) string { return "[]" + x }, false},
	{"array", func(x string) string { return "[3]" + x }, false},
	{"mapval", func(x string) string { return "map[string]" + x }, false},
	{"mapkey", func(x string) string { return "map[" + x + "]int" }, true},
	{"chan", func(x string) string { return "chan " + x }, false},
	{"recvchan", func(x string) string { return "<-chan " + x }, false},
	{"sendchan", func(x string) string { return "chan<- " + x }, false},
	{"func", func(x string) string { return "func(" + x + ") " + x }, false},
	{"funcvariadic", func(x string) string { return "func(...int) (" + x + ", error)" }, false},
	{"funcvar2", func(x string) string { return "func(string, ..." + x + ")" }, false},
	{"struct", func(x string) string { return "struct{ F " + x + " `json:\"f\"` }" }, false},
	{"iface", func(x string) string { return "interface{ M(" + x + ") " + x + " }" }, false},
	{"localgeneric", func(x string) string { return "LG[" + x + "]" }, false},
	{"foreigngeneric", func(x string) string { return "dep.G[" + x + "]" }, false},
	{"foreigngeneric2", func(x string) string { return "dep.IG[" + x + "]" }, false},
}

type shape struct {
	expr   string
	tparam bool
	inPkg  bool
	depth  int
}

func shapesUpTo(depth int) []shape {
	var out []shape
	for _, a := range atoms {
		out = append(out, shape{a.expr, a.tparam, a.inPkg, 0})
	}
	if depth >= 1 {
		for _, c := range ctors {
			for _, a := range atoms {
				if c.key && !a.comparable {
					continue
				}
				// atoms that only add another import of an already covered class are combined with three constructors
				if rareAtoms[a.expr] && c.name != "ptr" && c.name != "slice" && c.name != "mapval" {
					continue
				}
				out = append(out, shape{c.f(a.expr), a.tparam, a.inPkg, 1})
			}
		}
	}
	if depth >= 2 {
		for _, c2 := range ctors {
			if c2.key {
				continue
			}
			for _, c1 := range ctors {
				if c1.key {
					continue
				}
				for _, a := range deepAtoms {
					out = append(out, shape{c2.f(c1.f(a.expr)), a.tparam, a.inPkg, 2})
				}
			}
		}
	}
	return out
}

func ident(i int) string { return fmt.Sprintf("C%04d", i) }

// TemplateLocals are identifiers the built-in templates use themselves.
var TemplateLocals = []string{"_mock", "_m", "_e", "_c", "ret", "r0", "r1", "returnFunc", "ok", "_va", "_ca", "_i", "tmpRet", "mock", "callInfo", "calls", "run", "args", "variadicArgs", "i", "a", "arg0", "t", "lockM"}

var Predeclared = []string{"string", "int", "bool", "error", "any", "len", "cap", "append", "make", "new", "panic", "nil", "true", "false", "copy", "iota", "byte"}

var ImportNames = []string{"fmt", "sync", "context", "http", "io", "dep", "src", "testing", "unsafe", "time", "mocks"}

var OtherNames = []string{"id", "ID", "A", "é", "ñame", "_x", "x1", "LT", "T"}

// Reduced reports whether a case belongs to the reduced corpus used for
// template-data combinations other than the default one (the data options only
// switch template branches that depend on arity, results and variadic-ness).
func Reduced(c Case) bool {
	if strings.HasPrefix(c.ID, "sig:") || strings.HasPrefix(c.ID, "form:") || c.ID == "baseline" {
		return true
	}
	if strings.HasPrefix(c.ID, "shape:") {
		e := strings.TrimPrefix(c.ID, "shape:")
		for _, a := range atoms {
			if a.expr == e && !rareAtoms[e] {
				return true
			}
		}
	}
	return false
}

type Options struct {
	Depth      int  // nesting depth of the type grammar (0, 1, 2)
	Names      bool // identifier cases
	Forms      bool // interface forms + signature forms
	NamePairs  bool // identifier x "type that makes it matter" pairs
}

// Corpus builds the cases.
func Corpus(o Options) []Case {
	var cases []Case
	add := func(id, body string, tparams string, nT int, inPkg bool, methods []string, targs [][]string, extra string) {
		name := ident(len(cases))
		extra = strings.ReplaceAll(extra, "%NAME%", name)
		decl := extra + fmt.Sprintf("// %s\ntype %s%s interface {\n%s}\n", id, name, tparams, body)
		iso := false
		for _, w := range []string{"mockp.", "syncp.", "fmtp."} {
			if strings.Contains(body, w) {
				iso = true
			}
		}
		va := map[string]bool{}
		for _, l := range strings.Split(body, "\n") {
			l = strings.TrimSpace(l)
			if i := strings.Index(l, "("); i > 0 {
				// the method's own parameter list ends at the matching parenthesis
				depth, end := 0, -1
				for j := i; j < len(l) && end < 0; j++ {
					switch l[j] {
					case '(':
						depth++
					case ')':
						depth--
						if depth == 0 {
							end = j
						}
					}
				}
				if end > 0 {
					params := l[i+1 : end]
					// variadic iff the last top-level parameter starts with "..."
					last, d := params, 0
					for j := 0; j < len(params); j++ {
						switch params[j] {
						case '(', '[', '{':
							d++
						case ')', ']', '}':
							d--
						case ',':
							if d == 0 {
								last = params[j+1:]
							}
						}
					}
					f := strings.Fields(last)
					if len(f) > 0 && (strings.HasPrefix(f[0], "...") || len(f) > 1 && strings.HasPrefix(f[1], "...")) {
						va[l[:i]] = true
					}
				}
			}
		}
		cases = append(cases, Case{ID: id, Name: name, Decl: decl, TypeParams: nT, InPkgOnly: inPkg, Methods: methods, TArgs: targs, Isolated: iso, TParamDecl: tparams, Variadic: va})
	}
	simpleT := [][]string{{"int"}, {"string"}, {"src.LT"}, {"error"}}
	// baseline
	add("baseline", "\tM(a int) int\n", "", 0, false, []string{"M"}, nil, "")
	// ---- type shapes in parameter, result and variadic position (one interface per shape, three methods)
	for _, s := range shapesUpTo(o.Depth) {
		body := fmt.Sprintf("\tP(a %s) int\n\tR() %s\n\tV(n int, v ...%s) error\n\tPR(a %s, b int) (%s, error)\n", s.expr, s.expr, s.expr, s.expr, s.expr)
		tp, nT := "", 0
		var ta [][]string
		if s.tparam {
			tp, nT, ta = "[T any]", 1, simpleT
		}
		add("shape:"+s.expr, body, tp, nT, s.inPkg, []string{"P", "PR", "R", "V"}, ta, "")
	}
	if o.Forms {
		// ---- signature forms
		sig := func(id, m string) {
			var names []string
			for _, l := range strings.Split(m, "\n") {
				l = strings.TrimSpace(l)
				if i := strings.Index(l, "("); i > 0 {
					names = append(names, l[:i])
				}
			}
			sort.Strings(names)
			add("sig:"+id, "\t"+m+"\n", "", 0, false, names, nil, "")
		}
		sig("no params no results", "M()")
		sig("no params", "M() int")
		sig("no results", "M(a int)")
		sig("two params", "M(a int, b string) int")
		sig("three params three results", "M(a int, b string, c bool) (int, string, error)")
		sig("grouped params", "M(a, b int, c, d string) (x, y int)")
		sig("unnamed params", "M(int, string) int")
		sig("blank params", "M(_ int, _ string) int")
		sig("mixed blank", "M(a int, _ string, c bool) int")
		sig("named results", "M(a int) (n int, err error)")
		sig("blank named results", "M(a int) (_ int, _ error)")
		sig("error first", "M(a int) (error, int)")
		sig("error middle", "M(a int) (int, error, string)")
		sig("two errors", "M(a int) (error, error)")
		sig("only error", "M() error")
		sig("variadic only", "M(v ...int)")
		sig("variadic only results", "M(v ...int) (int, error)")
		sig("variadic after two", "M(a int, b string, v ...bool) error")
		sig("variadic any", "M(format string, v ...any) string")
		sig("variadic interface{}", "M(format string, v ...interface{}) string")
		sig("variadic unnamed", "M(int, ...string) int")
		sig("variadic of a defined empty-interface type", "M(msg string, kv ...LE) string")
		sig("variadic of an alias of the empty interface", "M(msg string, kv ...LEA) string")
		sig("variadic of a defined empty-interface type only", "M(kv ...LE)")
		sig("variadic of interfaces with methods", "M(v ...LI) error\n\tN(r ...io.Reader) (int, error)")
		sig("variadic of slices", "M(v ...[]byte) int")
		sig("variadic of funcs", "M(v ...func(int) error)")
		sig("variadic of foreign", "M(a dep.T, v ...dep.T) dep.T")
		sig("anonymous interface embedding a local interface", "M(x interface{ LClock; Name() string }) error")
		sig("anonymous interface embedding local and foreign interfaces", "M() interface{ LClock; dep.I }")
		sig("named foreign type followed by unnamed-typed parameters and results", "M(t dep3.T, names []string, n int, m map[string]bool) (dep3.T, []byte, bool)")
		sig("param same name as type", "M(LT LT) LT")
		sig("unnamed parameters and results of a type with a non-ASCII initial", "M(Ärger, *Ärger, []Ärger) (Ärger, error)")
		// no parameters, several results whose derived names coincide
		sig("no parameters, two unnamed results of one type", "M() (int, int)")
		sig("no parameters, unnamed results of types with one derived name", "M() (float64, float32, string, string)")
		sig("no parameters, a declared result name equal to a derived one", "M() (n int, _ int64)")
		sig("no parameters, two unnamed foreign interface results", "M() (io.Reader, io.Reader)")
		// a parameter named like the local type its own type is instantiated with (only nameable in the source package)
		add("sig:param named like the type argument of its generic type", "\tM(lt LG[lt]) error\n\tN(lt *lt, x []LG[lt]) LG[lt]\n\tO(MyInt LG[MyInt]) (LT LG[LT])\n", "", 0, true, []string{"M", "N", "O"}, nil, "")
		sig("result func", "M() func(int, ...string) error")
		sig("many methods", "A(a int) int\n\tB(b string) string\n\tC(c bool) bool\n\tD()")
		{
			// sizes beyond anything a fixed-size table or buffer might assume
			var ms, ps, rs []string
			for i := 0; i < 70; i++ {
				ms = append(ms, fmt.Sprintf("Meth%02d(a int, v ...string) (int, error)", i))
			}
			for i := 0; i < 40; i++ {
				ps = append(ps, fmt.Sprintf("p%02d %s", i, []string{"int", "string", "dep.T", "[]byte", "map[string]LT"}[i%5]))
			}
			for i := 0; i < 12; i++ {
				rs = append(rs, []string{"int", "string", "*LT", "error"}[i%4])
			}
			sig("seventy methods", strings.Join(ms, "\n\t"))
			sig("forty parameters twelve results", "M("+strings.Join(ps, ", ")+") ("+strings.Join(rs, ", ")+")")
		}
		sig("method names near the mock vocabulary", "Func(a int) int\n\tCall() int\n\tReturns(a int) int\n\tExpect(s string)")
		// ---- interface forms
		form := func(id, tparams string, nT int, body string, methods []string, targs [][]string, extra string) {
			add("form:"+id, body, tparams, nT, false, methods, targs, extra)
		}
		form("embed local", "", 0, "\tLI\n\tM(a int) int\n", []string{"Foo", "M"}, nil, "")
		form("embed foreign", "", 0, "\tdep.I\n\tM(a int) int\n", []string{"DepM", "M"}, nil, "")
		form("embed stdlib", "", 0, "\tio.ReadCloser\n\tM(a int) int\n", []string{"Close", "M", "Read"}, nil, "")
		form("embed stdlib only", "", 0, "\tio.ReadWriteCloser\n", []string{"Close", "Read", "Write"}, nil, "")
		form("embed instantiated generic", "", 0, "\tLIG[dep.T]\n\tdep.IG[string]\n", []string{"DepG", "Get"}, nil, "")
		form("embed depth 3", "", 0, "\tLEmb\n\tio.Writer\n", []string{"Bar", "Foo", "Write"}, nil, "")
		form("embed overlapping", "", 0, "\tio.Reader\n\tio.ReadCloser\n", []string{"Close", "Read"}, nil, "")
		form("empty", "", 0, "", nil, nil, "")
		form("generic any", "[T any]", 1, "\tM(a T) T\n", []string{"M"}, simpleT, "")
		form("generic comparable", "[K comparable, V any]", 2, "\tM(m map[K]V) (K, V)\n", []string{"M"}, [][]string{{"int", "string"}, {"string", "src.LT"}, {"src.LT", "error"}}, "")
		form("generic union", "[N ~int | ~string]", 1, "\tM(a N) []N\n", []string{"M"}, [][]string{{"int"}, {"string"}, {"dep.Str"}}, "")
		form("generic foreign constraint", "[N dep.C]", 1, "\tM(a N) N\n", []string{"M"}, [][]string{{"int"}, {"string"}, {"dep.Str"}}, "")
		form("generic constraint with method", "[S dep.CM]", 1, "\tM(a S) string\n", []string{"M"}, [][]string{{"dep.Str"}}, "")
		form("generic constraint mentions other param", "[E any, S ~[]E]", 2, "\tM(s S) E\n", []string{"M"}, [][]string{{"int", "[]int"}, {"src.LT", "[]src.LT"}}, "")
		form("generic io constraint", "[R io.Reader]", 1, "\tM(r R) (R, error)\n", []string{"M"}, [][]string{{"io.Reader"}, {"*strings.Reader"}}, "")
		form("generic tilde over composite types with qualified elements", "[S ~[]dep.T, M ~map[string]dep.T]", 2, "\tM(s S, m M) (S, M)\n", []string{"M"}, [][]string{{"[]dep.T", "map[string]dep.T"}}, "")
		form("generic union of tilde composite and plain terms", "[U ~[]dep.T | ~map[dep.T]bool | *dep.T]", 1, "\tM(u U) U\n", []string{"M"}, [][]string{{"[]dep.T"}, {"*dep.T"}}, "")
		// alias declarations that point back at the interface: they must not make it a second candidate
		form("generic with aliases of its instantiations", "[K comparable, V any]", 2, "\tGet(k K) (V, bool)\n", []string{"Get"}, [][]string{{"int", "string"}, {"string", "src.LT"}},
			"type %NAME%StrAlias = %NAME%[string, string]\n\ntype %NAME%IntAlias = %NAME%[int, []byte]\n\n")
		form("interface with a plain alias", "", 0, "\tM(a int) int\n", []string{"M"}, nil, "type %NAME%Alias = %NAME%\n\n")
		form("generic lower-case param", "[t any]", 1, "\tM(a t) t\n", []string{"M"}, simpleT, "")
		form("generic embeds generic", "[T any]", 1, "\tLIG[T]\n\tM(a T)\n", []string{"Get", "M"}, simpleT, "")
		form("generic embeds instantiated generic with a concrete argument", "[T any]", 1, "\tLIG[dep.T]\n\tdep.IG[[]T]\n\tPut(k string, v T)\n", []string{"DepG", "Get", "Put"}, simpleT, "")
		form("generic three params", "[A any, B comparable, C ~int]", 3, "\tM(a A, b B, c C) map[B]A\n", []string{"M"}, [][]string{{"int", "string", "int"}, {"error", "src.LT", "src.MyInt"}}, "")
		form("generic param shadows package", "[dep any]", 1, "\tM(a dep) dep\n", []string{"M"}, simpleT, "")
		form("generic param named like a package the signatures use", "[http any]", 1, "\tM(a http, x nhttp.X) http\n\tN(x *nhttp.X) []http\n", []string{"M", "N"}, simpleT, "")
		form("generic params named like two packages the signatures use", "[sync any, fmt comparable]", 2, "\tM(s syncp.S, k fmt) (sync, fmtp.F)\n", []string{"M"}, [][]string{{"int", "string"}, {"error", "src.LT"}}, "")
		form("generic params whose names method parameters reuse", "[a any, T any]", 2, "\tM(a int, T string) (v int)\n\tN(x a) T\n", []string{"M", "N"}, [][]string{{"int", "string"}, {"error", "src.LT"}}, "")
		form("generic blank param", "[_ any]", 1, "\tM(a int) int\n", []string{"M"}, simpleT, "")
		form("generic two blank params with one constraint", "[_ any, _ any]", 2, "\tM(a int) int\n", []string{"M"}, [][]string{{"int", "string"}, {"error", "src.LT"}}, "")
		form("generic blank param next to a local type named T0", "[_ any]", 1, "\tM(a T0, T1 MyInt) T0\n", []string{"M"}, simpleT, "")
		form("generic blank params around a named one", "[_ any, T any, _ comparable]", 3, "\tM(a T) T\n", []string{"M"}, [][]string{{"int", "string", "int"}, {"error", "src.LT", "string"}}, "")
		// named type whose underlying type is an instantiated generic interface
		n := ident(len(cases))
		cases = append(cases, Case{ID: "form:instantiated generic named type", Name: n, Decl: fmt.Sprintf("// form:instantiated generic named type\ntype %s LIG[dep.T]\n", n), Methods: []string{"Get"}})
		n = ident(len(cases))
		cases = append(cases, Case{ID: "form:instantiated foreign generic named type", Name: n, Decl: fmt.Sprintf("// form:instantiated foreign generic named type\ntype %s dep.IG[[]LT]\n", n), Methods: []string{"DepG"}})
	}
	if o.Names {
		all := [][]string{TemplateLocals, Predeclared, ImportNames, OtherNames}
		seen := map[string]bool{}
		for _, group := range all {
			for _, n := range group {
				if seen[n] {
					continue
				}
				seen[n] = true
				add("name:param:"+n, fmt.Sprintf("\tM(%s string, z int) (int, error)\n\tV(q int, %s ...string) error\n", n, n), "", 0, false, []string{"M", "V"}, nil, "")
				add("name:result:"+n, fmt.Sprintf("\tM(z string) (%s int, err error)\n", n), "", 0, false, []string{"M"}, nil, "")
				if n != "T" && n != "any" && (!strings.HasPrefix(n, "_") || n == "_x") {
					add("name:typeparam:"+n, fmt.Sprintf("\tM(z %s) %s\n", n, n), "["+n+" any]", 1, false, []string{"M"}, simpleT, "")
				}
			}
		}
		add("name:case twins", "\tM(a int, A string) (id int, ID string)\n", "", 0, false, []string{"M"}, nil, "")
	}
	if o.NamePairs {
		pairs := [][2]string{{"http", "http.Header"}, {"dep", "dep.T"}, {"dep", "dep2.T"}, {"io", "io.Reader"}, {"context", "context.Context"}, {"time", "time.Duration"}, {"LT", "LT"},
			{"mock", "mockp.M"}, {"sync", "syncp.S"}, {"fmt", "fmtp.F"}, {"http", "nhttp.X"}, {"unsafe", "unsafe.Pointer"}, {"src", "LT"}, {"dep0", "dep2.T"}, {"http0", "nhttp.X"}}
		for _, p := range pairs {
			add("pair:param:"+p[0]+":"+p[1], fmt.Sprintf("\tM(%s %s, other %s) %s\n\tV(%s ...%s)\n", p[0], p[1], p[1], p[1], p[0], p[1]), "", 0, false, []string{"M", "V"}, nil, "")
			add("pair:result:"+p[0]+":"+p[1], fmt.Sprintf("\tM(z %s) (%s %s)\n", p[1], p[0], p[1]), "", 0, false, []string{"M"}, nil, "")
		}
		// both same-named packages in one signature, in either order
		add("pair:two deps", "\tM(a dep.T, b dep2.T) (dep2.T, dep.T)\n", "", 0, false, []string{"M"}, nil, "")
		add("pair:three deps", "\tM(a dep3.T, b dep.T, c dep2.T) (dep2.T, dep3.T, dep.T)\n\tN(x dep3.T) dep3.T\n", "", 0, false, []string{"M", "N"}, nil, "")
		// a parameter named like the alias the registry will hand out for the second same-named package of the
		// same method (the first interface of a file to need that alias)
		add("pair:param named like the generated alias", "\tM(dep0 int, a dep.T, b dep2.T) error\n\tN(a dep2.T, dep0 string, b dep.T) (dep0r dep.T)\n", "", 0, false, []string{"M", "N"}, nil, "")
		add("pair:param named like the generated alias, three packages", "\tM(a dep.T, dep1 dep2.T, dep0 dep3.T) dep3.T\n", "", 0, false, []string{"M"}, nil, "")
		add("pair:two deps reversed", "\tM(a dep2.T, b dep.T) (dep.T, dep2.T)\n", "", 0, false, []string{"M"}, nil, "")
		add("pair:two https", "\tM(a http.Header, b nhttp.X) (nhttp.X, http.Header)\n", "", 0, false, []string{"M"}, nil, "")
		add("pair:mockp.M with syncp.S and fmtp.F", "\tM(a mockp.M, b syncp.S, c fmtp.F) error\n", "", 0, false, []string{"M"}, nil, "")
	}
	return cases
}

// Source renders package src for the given cases.
func Source(cases []Case) string {
	var b strings.Builder
	b.WriteString(Prelude)
	for _, c := range cases {
		b.WriteString("\n")
		b.WriteString(c.Decl)
	}
	return b.String()
}

// Names returns the sorted interface names.
func Names(cases []Case) []string {
	var n []string
	for _, c := range cases {
		n = append(n, c.Name)
	}
	sort.Strings(n)
	return n
}
