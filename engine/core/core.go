// Package core is engine E1 ("world"): scratch trees, building the repository
// copy, running commands, snapshots, worker pool, evidence, findings.
package core

import (
	"bytes"
	"context"
	"crypto/sha256"
	"encoding/hex"
	"encoding/json"
	"errors"
	"fmt"
	"io/fs"
	"os"
	"os/exec"
	"path/filepath"
	"sort"
	"strconv"
	"strings"
	"sync"
	"syscall"
	"time"
)

// VerifDir is the root of the verification tree (/verif).
func VerifDir() string {
	if v := os.Getenv("VERIF_DIR"); v != "" {
		return v
	}
	exe, err := os.Executable()
	if err == nil {
		// <verif>/bin/mcx
		d := filepath.Dir(filepath.Dir(exe))
		if _, err := os.Stat(filepath.Join(d, "properties.jsonl")); err == nil {
			return d
		}
	}
	return "/verif"
}

// RepoSrc is the tree under verification (never modified).
func RepoSrc() string {
	if v := os.Getenv("VERIF_REPO"); v != "" {
		return v
	}
	return "/repo"
}

// Ctx is the per-invocation context of one check.
type Ctx struct {
	ID      string
	Tier    string
	Seed    int64
	Scratch string // removed on Close
	Repo    string // scratch copy of the tree
	Mockery string // binary built from the copy
	Start   time.Time
	Deadline time.Time // internal deadline; after it checks stop exploring and report exhaustive:false

	mu         sync.Mutex
	known      []Finding
	seenKnown  map[string]bool
	violations []Violation
	harnessErr []string
	skipped    []string // work given up for lack of resources (timeouts under load, killed compilers): not a verdict
	Ev         *Evidence
}

type Finding struct {
	Property string `json:"property"`
	Key      string `json:"key"`    // exact identity of the failing case (deviation set + signature)
	Status   string `json:"status"` // known | fixed
	What     string `json:"what"`
	Line     string `json:"line,omitempty"` // "fixed: property=<id> <commit> <what failed>"
}

type Violation struct {
	Key    string `json:"key"`
	What   string `json:"what"`
	Replay any    `json:"replay"`
	Path   string `json:"path"`
}

func Quick(tier string) bool { return tier != "thorough" }

func NewCtx(id, tier string) (*Ctx, error) {
	seed := int64(0)
	if s := os.Getenv("VERIF_SEED"); s != "" {
		if v, err := strconv.ParseInt(s, 10, 64); err == nil {
			seed = v
		}
	}
	base := os.Getenv("VERIF_SCRATCH")
	if base == "" {
		base = os.TempDir()
	}
	scratch, err := os.MkdirTemp(base, "mcx-"+id+"-")
	if err != nil {
		return nil, err
	}
	c := &Ctx{ID: id, Tier: tier, Seed: seed, Scratch: scratch, Start: time.Now(), seenKnown: map[string]bool{}}
	c.Ev = NewEvidence(id, tier, seed)
	budget := 8 * time.Minute
	if tier == "thorough" {
		budget = 45 * time.Minute
	}
	if s := os.Getenv("VERIF_BUDGET_S"); s != "" {
		if v, err := strconv.Atoi(s); err == nil {
			budget = time.Duration(v) * time.Second
		}
	}
	c.Deadline = c.Start.Add(budget)
	initGoCache(id, scratch)
	if err := c.loadKnown(); err != nil {
		return nil, err
	}
	return c, nil
}

// GoCacheBase is the warm Go build cache produced by `mcx warm` (setup.sh). Every check works in its own
// GOCACHE under its scratch directory, seeded with hard links to the base and removed with the scratch: the
// thousands of one-off scratch modules a check compiles never accumulate in the user's build cache.
func GoCacheBase() string {
	if v := os.Getenv("VERIF_GOCACHE_BASE"); v != "" {
		return v
	}
	return filepath.Join(VerifDir(), ".cache", "gocache-base")
}

func initGoCache(id, scratch string) {
	if os.Getenv("VERIF_SHARED_GOCACHE") != "" {
		return
	}
	base := GoCacheBase()
	if id == "warm" {
		// build into a fresh directory, swapped in by FinishWarm
		tmp := base + ".new"
		os.RemoveAll(tmp)
		if os.MkdirAll(tmp, 0o755) == nil {
			os.Setenv("GOCACHE", tmp)
		}
		return
	}
	dst := filepath.Join(scratch, "gocache")
	if st, err := os.Stat(base); err == nil && st.IsDir() {
		if out, err := exec.Command("cp", "-al", base, dst).CombinedOutput(); err != nil {
			fmt.Fprintf(os.Stderr, "note: could not link the warm build cache (%v %s); starting cold\n", err, strings.TrimSpace(string(out)))
			os.RemoveAll(dst)
		}
	}
	if os.MkdirAll(dst, 0o755) == nil {
		os.Setenv("GOCACHE", dst)
	}
}

// FinishWarm publishes the cache built by `mcx warm`.
func FinishWarm() {
	base := GoCacheBase()
	tmp := base + ".new"
	if os.Getenv("GOCACHE") != tmp {
		return
	}
	old := base + ".old"
	os.RemoveAll(old)
	os.Rename(base, old)
	if err := os.Rename(tmp, base); err != nil {
		fmt.Fprintln(os.Stderr, "warm:", err)
	}
	os.RemoveAll(old)
}

func (c *Ctx) Expired() bool { return time.Now().After(c.Deadline) }

func (c *Ctx) Close() {
	if os.Getenv("VERIF_KEEP") != "" {
		fmt.Fprintln(os.Stderr, "keeping scratch", c.Scratch)
		return
	}
	// module cache style read-only dirs are not expected, but be safe
	filepath.WalkDir(c.Scratch, func(p string, d fs.DirEntry, err error) error {
		if err == nil && d.IsDir() {
			os.Chmod(p, 0o755)
		}
		return nil
	})
	os.RemoveAll(c.Scratch)
}

func (c *Ctx) loadKnown() error {
	b, err := os.ReadFile(filepath.Join(VerifDir(), "known_findings.json"))
	if err != nil {
		if os.IsNotExist(err) {
			return nil
		}
		return err
	}
	var f struct {
		Findings []Finding `json:"findings"`
	}
	if err := json.Unmarshal(b, &f); err != nil {
		return fmt.Errorf("known_findings.json: %w", err)
	}
	for _, x := range f.Findings {
		if x.Property == c.ID && x.Status == "known" {
			c.known = append(c.known, x)
		}
	}
	return nil
}

// Report records a failing case. key is the finding identity. If it is listed
// as known, a KNOWN-FINDING line is printed (once per key); otherwise it is a
// violation with a replay artefact.
func (c *Ctx) Report(key, what string, replay any) {
	c.mu.Lock()
	defer c.mu.Unlock()
	for _, k := range c.known {
		// a known key ending in '*' matches every key with that prefix (one entry per failing input)
		if k.Key == key || strings.HasSuffix(k.Key, "*") && strings.HasPrefix(key, strings.TrimSuffix(k.Key, "*")) {
			key = k.Key
			if !c.seenKnown[key] {
				c.seenKnown[key] = true
				fmt.Printf("KNOWN-FINDING: property=%s %s\n", c.ID, k.What)
			}
			return
		}
	}
	for _, v := range c.violations {
		if v.Key == key {
			return
		}
	}
	// replay mode: only the recorded violation counts
	if rk := os.Getenv("VERIF_REPLAY_KEY"); rk != "" && rk != key {
		return
	}
	v := Violation{Key: key, What: what, Replay: replay}
	if f := os.Getenv("VERIF_DUMP_KEYS"); f != "" {
		if fh, err := os.OpenFile(f, os.O_CREATE|os.O_APPEND|os.O_WRONLY, 0o644); err == nil {
			fmt.Fprintf(fh, "%s\t%s\n", key, strings.SplitN(what, "\n", 2)[0])
			fh.Close()
		}
	}
	if len(c.violations) < 20 {
		dir := filepath.Join(VerifDir(), "replays", c.ID)
		if v := os.Getenv("VERIF_EVIDENCE_DIR"); v != "" {
			dir = filepath.Join(v, "replays", c.ID)
		}
		os.MkdirAll(dir, 0o755)
		name := fmt.Sprintf("%s-%03d.json", c.Tier, len(c.violations))
		v.Path = filepath.Join(dir, name)
		b, _ := json.MarshalIndent(map[string]any{"property": c.ID, "key": key, "what": what, "replay": replay}, "", " ")
		os.WriteFile(v.Path, b, 0o644)
		fmt.Printf("VIOLATION property=%s replay=%s\n", c.ID, v.Path)
		fmt.Printf("  key: %s\n  what: %s\n", key, firstLines(what, 12))
	}
	c.violations = append(c.violations, v)
}

func firstLines(s string, n int) string {
	l := strings.Split(s, "\n")
	if len(l) > n {
		l = append(l[:n], "...")
	}
	return strings.Join(l, "\n        ")
}

// KnownKeysOf returns the keys of the known (unrepaired) findings recorded for another property.
func KnownKeysOf(prop string) []string {
	b, err := os.ReadFile(filepath.Join(VerifDir(), "known_findings.json"))
	if err != nil {
		return nil
	}
	var f struct {
		Findings []Finding `json:"findings"`
	}
	if json.Unmarshal(b, &f) != nil {
		return nil
	}
	var out []string
	for _, x := range f.Findings {
		if x.Property == prop && x.Status == "known" {
			out = append(out, x.Key)
		}
	}
	return out
}

// KnownKeys returns the keys of the known findings of this property.
func (c *Ctx) KnownKeys() []string {
	var out []string
	for _, k := range c.known {
		out = append(out, k.Key)
	}
	return out
}

func (c *Ctx) NumViolations() int {
	c.mu.Lock()
	defer c.mu.Unlock()
	return len(c.violations)
}

// Skip records work that was given up for lack of resources (a run that hit its generous wall-clock limit on
// an overloaded machine, a compiler killed by the kernel). It is neither a violation nor a harness bug: the run
// exits as if the case had not been scheduled, with exhaustive:false and the reasons in the evidence.
func (c *Ctx) Skip(format string, a ...any) {
	c.mu.Lock()
	defer c.mu.Unlock()
	m := fmt.Sprintf(format, a...)
	if len(c.skipped) < 50 {
		c.skipped = append(c.skipped, m)
	}
	fmt.Fprintln(os.Stderr, "SKIPPED-FOR-RESOURCES:", m)
}

// ResourceFailure reports whether a command result looks like resource exhaustion rather than a verdict.
func ResourceFailure(r Result) bool {
	return r.TimedOut || r.Signal == "killed" || r.Exit == -2 && strings.Contains(r.Stderr, "exec error:") || strings.Contains(r.Stderr, "signal: killed") || strings.Contains(r.Stderr, "cannot allocate memory") || strings.Contains(r.Stderr, "resource temporarily unavailable")
}

// Harness records a harness/build problem (exit 2, never a VIOLATION).
func (c *Ctx) Harness(format string, a ...any) {
	c.mu.Lock()
	defer c.mu.Unlock()
	m := fmt.Sprintf(format, a...)
	c.harnessErr = append(c.harnessErr, m)
	fmt.Fprintln(os.Stderr, "HARNESS-ERROR:", m)
}

// Finish writes the evidence file and returns the process exit code.
func (c *Ctx) Finish() int {
	c.Ev.WallS = time.Since(c.Start).Seconds()
	c.Ev.Violations = len(c.violations)
	unusedKnown := []string{}
	for _, k := range c.known {
		if !c.seenKnown[k.Key] {
			unusedKnown = append(unusedKnown, k.Key)
		}
	}
	if len(unusedKnown) > 0 {
		c.Ev.Coverage["known_findings_not_reproduced_this_run"] = unusedKnown
	}
	if len(c.skipped) > 0 {
		c.Ev.Coverage["skipped_for_resources"] = c.skipped
		c.Ev.Coverage["exhaustive"] = false
	}
	if err := c.Ev.Write(); err != nil {
		fmt.Fprintln(os.Stderr, "evidence:", err)
		return 2
	}
	fmt.Printf("%s %s: states=%v transitions=%v evaluations=%v distinct_nontrivial=%v exhaustive=%v violations=%d wall=%.1fs\n",
		c.ID, c.Tier, c.Ev.Coverage["states"], c.Ev.Coverage["transitions"], c.Ev.Coverage["evaluations"], c.Ev.Coverage["distinct_nontrivial"], c.Ev.Coverage["exhaustive"], len(c.violations), c.Ev.WallS)
	if len(c.violations) > 0 {
		return 1
	}
	if len(c.harnessErr) > 0 {
		return 2
	}
	return 0
}

// ---------------------------------------------------------------- env

func filteredEnv(drop ...string) []string {
	out := []string{}
	for _, e := range os.Environ() {
		k := e[:strings.IndexByte(e, '=')]
		skip := false
		for _, d := range drop {
			if k == d || (strings.HasSuffix(d, "*") && strings.HasPrefix(k, strings.TrimSuffix(d, "*"))) {
				skip = true
			}
		}
		if !skip {
			out = append(out, e)
		}
	}
	return out
}

// RepoEnv is the environment for building inside the scratch copy of the tree
// (workspace mode, toolchain auto-switch to the cached go1.23.7).
func RepoEnv() []string {
	e := filteredEnv("GOFLAGS", "GOWORK", "GOSUMDB", "GOTOOLCHAIN", "GOPROXY", "GONOSUMDB", "GONOSUMCHECK", "GOFLAGS", "MOCKERY_*")
	return append(e, "GOPROXY=off", "GOTOOLCHAIN=auto")
}

// UserEnv is the environment for scratch user modules and for running mockery
// itself (which shells out to `go list`).
func UserEnv(extra ...string) []string {
	e := filteredEnv("GOFLAGS", "GOWORK", "GOSUMDB", "GOTOOLCHAIN", "GOPROXY", "MOCKERY_*")
	e = append(e, "GOPROXY=off", "GOFLAGS=-mod=mod", "GOTOOLCHAIN=local", "GOSUMDB=off", "GOWORK=off")
	return append(e, extra...)
}

// ---------------------------------------------------------------- commands

type Result struct {
	Exit     int
	Stdout   string
	Stderr   string
	TimedOut bool
	Signal   string
	Wall     time.Duration
}

func (r Result) Panicked() bool {
	return r.Signal != "" || strings.Contains(r.Stderr, "\ngoroutine ") && (strings.Contains(r.Stderr, "panic:") || strings.Contains(r.Stderr, "fatal error:")) ||
		strings.Contains(r.Stdout, "\ngoroutine ") && strings.Contains(r.Stdout, "panic:") || r.Exit == 2 && strings.HasPrefix(r.Stderr, "panic:")
}

func Run(dir string, env []string, timeout time.Duration, stdin string, name string, args ...string) Result {
	ctx, cancel := context.WithTimeout(context.Background(), timeout)
	defer cancel()
	cmd := exec.CommandContext(ctx, name, args...)
	cmd.Dir = dir
	cmd.Env = env
	cmd.SysProcAttr = &syscall.SysProcAttr{Setpgid: true}
	cmd.Cancel = func() error {
		return syscall.Kill(-cmd.Process.Pid, syscall.SIGKILL)
	}
	cmd.WaitDelay = 15 * time.Second
	var so, se bytes.Buffer
	cmd.Stdout, cmd.Stderr = &so, &se
	if stdin != "" {
		cmd.Stdin = strings.NewReader(stdin)
	}
	t0 := time.Now()
	err := cmd.Run()
	r := Result{Stdout: so.String(), Stderr: se.String(), Wall: time.Since(t0)}
	if ctx.Err() == context.DeadlineExceeded {
		r.TimedOut = true
		r.Exit = -1
		return r
	}
	if err != nil {
		var ee *exec.ExitError
		if errors.As(err, &ee) {
			r.Exit = ee.ExitCode()
			if ws, ok := ee.Sys().(syscall.WaitStatus); ok && ws.Signaled() {
				r.Signal = ws.Signal().String()
			}
		} else if errors.Is(err, exec.ErrWaitDelay) && cmd.ProcessState != nil {
			// the process itself has exited; a descendant kept the output pipes open longer than WaitDelay (seen on
			// an overloaded machine): its own exit status is what counts
			r.Exit = cmd.ProcessState.ExitCode()
		} else {
			r.Exit = -2
			r.Stderr += "\nexec error: " + err.Error()
		}
	}
	return r
}

// ---------------------------------------------------------------- repo copy + build

// CopyRepo rsyncs the tree under verification into the scratch dir.
func (c *Ctx) CopyRepo() error {
	if c.Repo != "" {
		return nil
	}
	dst := filepath.Join(c.Scratch, "repo")
	r := Run("/", os.Environ(), 2*time.Minute, "", "rsync", "-a", "--exclude", ".git", RepoSrc()+"/", dst+"/")
	if r.Exit != 0 {
		return fmt.Errorf("rsync: %s", r.Stderr)
	}
	c.Repo = dst
	return nil
}

// BuildRepoPkg builds package pkg (relative to the copy, e.g. "." or
// "./internal/verifx/c16") into out.
func (c *Ctx) BuildRepoPkg(dir, pkg, out string, extra ...string) error {
	args := append([]string{"build"}, extra...)
	args = append(args, "-o", out, pkg)
	r := Run(filepath.Join(c.Repo, dir), RepoEnv(), 10*time.Minute, "", "go", args...)
	if r.Exit != 0 {
		return fmt.Errorf("go build %s: exit %d\n%s%s", pkg, r.Exit, r.Stdout, r.Stderr)
	}
	return nil
}

func (c *Ctx) BuildMockery() error {
	if c.Mockery != "" {
		return nil
	}
	if err := c.CopyRepo(); err != nil {
		return err
	}
	out := filepath.Join(c.Scratch, "bin", "mockery")
	os.MkdirAll(filepath.Dir(out), 0o755)
	if err := c.BuildRepoPkg(".", ".", out); err != nil {
		return err
	}
	c.Mockery = out
	return nil
}

// AddRepoFiles writes extra files (e.g. a driver main package) into the copy.
func (c *Ctx) AddRepoFiles(files map[string]string) error {
	return WriteTree(c.Repo, files)
}

// ---------------------------------------------------------------- trees

func WriteTree(root string, files map[string]string) error {
	for p, content := range files {
		full := filepath.Join(root, p)
		if strings.HasSuffix(p, "/") {
			if err := os.MkdirAll(full, 0o755); err != nil {
				return err
			}
			continue
		}
		if err := os.MkdirAll(filepath.Dir(full), 0o755); err != nil {
			return err
		}
		if err := os.WriteFile(full, []byte(content), 0o644); err != nil {
			return err
		}
	}
	return nil
}

// Snapshot maps every path under root to the sha256 of its content ("dir" for
// directories, "link:<target>" for symlinks).
func Snapshot(root string) map[string]string {
	out := map[string]string{}
	filepath.WalkDir(root, func(p string, d fs.DirEntry, err error) error {
		if err != nil {
			return nil
		}
		rel, _ := filepath.Rel(root, p)
		if rel == "." {
			return nil
		}
		if d.Type()&fs.ModeSymlink != 0 {
			t, _ := os.Readlink(p)
			out[rel] = "link:" + t
			return nil
		}
		if d.IsDir() {
			out[rel] = "dir"
			return nil
		}
		b, err := os.ReadFile(p)
		if err != nil {
			out[rel] = "unreadable"
			return nil
		}
		h := sha256.Sum256(b)
		out[rel] = hex.EncodeToString(h[:])
		return nil
	})
	return out
}

func HashBytes(b []byte) string {
	h := sha256.Sum256(b)
	return hex.EncodeToString(h[:])
}

// HashSnapshot returns one hash for a whole snapshot.
func HashSnapshot(s map[string]string) string {
	keys := make([]string, 0, len(s))
	for k := range s {
		keys = append(keys, k)
	}
	sort.Strings(keys)
	h := sha256.New()
	for _, k := range keys {
		fmt.Fprintf(h, "%s\x00%s\n", k, s[k])
	}
	return hex.EncodeToString(h.Sum(nil))
}

// DiffSnapshots lists paths added, removed, changed.
func DiffSnapshots(a, b map[string]string) (added, removed, changed []string) {
	for k, v := range b {
		if av, ok := a[k]; !ok {
			added = append(added, k)
		} else if av != v {
			changed = append(changed, k)
		}
	}
	for k := range a {
		if _, ok := b[k]; !ok {
			removed = append(removed, k)
		}
	}
	sort.Strings(added)
	sort.Strings(removed)
	sort.Strings(changed)
	return
}

// ---------------------------------------------------------------- pool

func Workers() int {
	if s := os.Getenv("VERIF_WORKERS"); s != "" {
		if v, err := strconv.Atoi(s); err == nil && v > 0 {
			return v
		}
	}
	return 16
}

// ParallelFor runs fn(i) for i in [0,n) on Workers() goroutines.
func ParallelFor(n int, fn func(i int)) {
	w := Workers()
	if w > n {
		w = n
	}
	var wg sync.WaitGroup
	ch := make(chan int)
	for k := 0; k < w; k++ {
		wg.Add(1)
		go func() {
			defer wg.Done()
			for i := range ch {
				fn(i)
			}
		}()
	}
	for i := 0; i < n; i++ {
		ch <- i
	}
	close(ch)
	wg.Wait()
}

// ---------------------------------------------------------------- evidence

type Evidence struct {
	PropertyID  string         `json:"property_id"`
	Tier        string         `json:"tier"`
	Seed        int64          `json:"seed"`
	Level       string         `json:"level"`
	Coverage    map[string]any `json:"coverage"`
	Assumptions []string       `json:"assumptions"`
	WallS       float64        `json:"wall_s"`
	Violations  int            `json:"violations"`

	mu      sync.Mutex
	samples []any
	counts  map[string]int64
	sets    map[string]map[string]struct{}
}

func NewEvidence(id, tier string, seed int64) *Evidence {
	return &Evidence{PropertyID: id, Tier: tier, Seed: seed, Level: "model_checking",
		Coverage: map[string]any{}, counts: map[string]int64{}, sets: map[string]map[string]struct{}{}, Assumptions: []string{}}
}

func (e *Evidence) Add(name string, n int64) {
	e.mu.Lock()
	e.counts[name] += n
	e.mu.Unlock()
}

// Distinct records membership of key in the named set; the set size is
// written as coverage[name].
func (e *Evidence) Distinct(name, key string) {
	e.mu.Lock()
	s := e.sets[name]
	if s == nil {
		s = map[string]struct{}{}
		e.sets[name] = s
	}
	s[key] = struct{}{}
	e.mu.Unlock()
}

func (e *Evidence) DistinctCount(name string) int {
	e.mu.Lock()
	defer e.mu.Unlock()
	return len(e.sets[name])
}

func (e *Evidence) Sample(v any) {
	e.mu.Lock()
	if len(e.samples) < 8 {
		e.samples = append(e.samples, v)
	}
	e.mu.Unlock()
}

func (e *Evidence) Set(name string, v any) {
	e.mu.Lock()
	e.Coverage[name] = v
	e.mu.Unlock()
}

func (e *Evidence) Assume(s string) {
	e.mu.Lock()
	defer e.mu.Unlock()
	for _, a := range e.Assumptions {
		if a == s {
			return
		}
	}
	e.Assumptions = append(e.Assumptions, s)
}

func (e *Evidence) Write() error {
	e.mu.Lock()
	defer e.mu.Unlock()
	for k, v := range e.counts {
		e.Coverage[k] = v
	}
	for k, s := range e.sets {
		e.Coverage[k] = len(s)
	}
	if len(e.samples) == 0 {
		e.samples = append(e.samples, "no case executed")
	}
	e.Coverage["samples"] = e.samples
	for _, k := range []string{"states", "transitions", "traces_validated_against_impl", "evaluations", "distinct_nontrivial"} {
		if _, ok := e.Coverage[k]; !ok {
			e.Coverage[k] = 0
		}
	}
	if _, ok := e.Coverage["exhaustive"]; !ok {
		e.Coverage["exhaustive"] = false
	}
	if oc, ok := e.Coverage["distinct_outcomes"]; ok {
		if n, ok := oc.(int); ok && n <= 1 {
			e.Coverage["vacuity_warning"] = "only one distinct outcome observed"
		}
	}
	dir := filepath.Join(VerifDir(), "evidence")
	if v := os.Getenv("VERIF_EVIDENCE_DIR"); v != "" {
		dir = v // self-test runs against mutants must not overwrite the real evidence
	}
	os.MkdirAll(dir, 0o755)
	b, err := json.MarshalIndent(e, "", " ")
	if err != nil {
		return err
	}
	return os.WriteFile(filepath.Join(dir, e.PropertyID+".json"), append(b, '\n'), 0o644)
}

// ---------------------------------------------------------------- misc

func Must(err error) {
	if err != nil {
		panic(err)
	}
}

func JSON(v any) string {
	b, _ := json.Marshal(v)
	return string(b)
}

func SortedKeys[V any](m map[string]V) []string {
	k := make([]string, 0, len(m))
	for x := range m {
		k = append(k, x)
	}
	sort.Strings(k)
	return k
}
