// Package assets embeds driver sources, probe templates and runtimes that the
// checks write into scratch trees at run time.
package assets

import "embed"

//go:embed all:*
var FS embed.FS

func Must(name string) string {
	b, err := FS.ReadFile(name)
	if err != nil {
		panic(err)
	}
	return string(b)
}
