// Package gocheck is the oracle half of engine E2: it loads packages of a
// scratch module with go/packages (tests included, build tags applied) and
// returns every parse and type error, i.e. what a user's compiler would say.
package gocheck

import (
	"fmt"
	"regexp"
	"sort"
	"strings"

	"golang.org/x/tools/go/packages"
)

type Err struct {
	File string // base-relative when possible
	Line int
	Msg  string
}

func (e Err) String() string { return fmt.Sprintf("%s:%d: %s", e.File, e.Line, e.Msg) }

var posRe = regexp.MustCompile(`^(.*?):(\d+)(?::\d+)?$`)

// Load loads patterns in dir and returns the packages and all errors.
func Load(dir string, env []string, tags string, tests bool, patterns ...string) ([]*packages.Package, []Err, error) {
	cfg := &packages.Config{
		// typed syntax for the initial packages, dependencies from export data (fast: the go command caches them)
		Mode:  packages.NeedName | packages.NeedFiles | packages.NeedCompiledGoFiles | packages.NeedSyntax | packages.NeedTypes | packages.NeedTypesSizes | packages.NeedTypesInfo | packages.NeedImports,
		Dir:   dir,
		Env:   env,
		Tests: tests,
	}
	if tags != "" {
		cfg.BuildFlags = []string{"-tags", tags}
	}
	pkgs, err := packages.Load(cfg, patterns...)
	if err != nil {
		return nil, nil, err
	}
	seen := map[string]bool{}
	var out []Err
	packages.Visit(pkgs, nil, func(p *packages.Package) {
		if !strings.HasPrefix(p.PkgPath, "example.com/m") {
			return
		}
		for _, e := range p.Errors {
			k := e.Pos + e.Msg
			if seen[k] {
				continue
			}
			seen[k] = true
			er := Err{Msg: e.Msg}
			if m := posRe.FindStringSubmatch(e.Pos); m != nil {
				er.File = strings.TrimPrefix(m[1], dir+"/")
				fmt.Sscan(m[2], &er.Line)
			} else {
				er.File = e.Pos
			}
			out = append(out, er)
		}
	})
	sort.Slice(out, func(i, j int) bool {
		if out[i].File != out[j].File {
			return out[i].File < out[j].File
		}
		return out[i].Line < out[j].Line
	})
	return pkgs, out, nil
}

var (
	numRe  = regexp.MustCompile(`\d+`)
	nameRe = regexp.MustCompile(`C\d{4}`)
)

// Signature normalises an error message for use in a finding key: positions,
// generated case names and counters are removed.
func Signature(msg string) string {
	// compiler output relayed by the go command: skip "# package" headers and position prefixes
	for _, l := range strings.Split(msg, "\n") {
		l = strings.TrimSpace(l)
		if l == "" || strings.HasPrefix(l, "#") {
			continue
		}
		if m := regexp.MustCompile(`^[^ :]+\.go:\d+:\d+: (.*)$`).FindStringSubmatch(l); m != nil {
			l = m[1]
		}
		msg = l
		break
	}
	msg = nameRe.ReplaceAllString(msg, "C#")
	msg = numRe.ReplaceAllString(msg, "#")
	if i := strings.Index(msg, "\n"); i >= 0 {
		msg = msg[:i]
	}
	if len(msg) > 160 {
		msg = msg[:160]
	}
	return msg
}
