// Package sched holds the build-time half of engine E4: the instrumenter that
// turns every access to shared state in a generated mock file (receiver-rooted
// field paths, package-level variables declared in that file, local variables
// that a closure assigns to from outside their declaration) into a
// scheduling point + vector-clock event of the vrt runtime, and redirects the
// file's "sync" import to the vsync shim. The instrumenter is generic: it works
// from go/types information, not from the template text.
package sched

import (
	"bytes"
	"fmt"
	"go/ast"
	"go/format"
	"go/token"
	"go/types"
	"path/filepath"
	"strconv"
	"strings"

	"golang.org/x/tools/go/packages"
)

type Report struct {
	Accesses  []string // "func: R|W path" per inserted access, in source order
	SyncAlias string
	Methods   int
}

type instr struct {
	info    *types.Info
	pkg     *types.Package
	fset    *token.FileSet
	genFile *token.File
	recv    types.Object
	fn      string
	rep     *Report
	tmpN    int
	// local variables that a function literal assigns to although they are declared outside it: state shared
	// between every invocation of the closure (and with the enclosing function)
	captured map[*types.Var]bool
}

// Instrument loads pkgPath in dir, instruments the file whose base name is
// genBase, and returns the new source.
func Instrument(dir string, env []string, pkgPath, genBase string, tests bool) ([]byte, *Report, error) {
	cfg := &packages.Config{
		Mode:  packages.NeedName | packages.NeedFiles | packages.NeedCompiledGoFiles | packages.NeedSyntax | packages.NeedTypes | packages.NeedTypesInfo | packages.NeedImports | packages.NeedDeps,
		Dir:   dir,
		Env:   env,
		Tests: tests,
	}
	pkgs, err := packages.Load(cfg, pkgPath)
	if err != nil {
		return nil, nil, err
	}
	for _, p := range pkgs {
		for i, f := range p.CompiledGoFiles {
			if filepath.Base(f) != genBase {
				continue
			}
			if len(p.Errors) > 0 {
				return nil, nil, fmt.Errorf("package %s does not type-check: %v", p.PkgPath, p.Errors[0])
			}
			return instrumentFile(p, p.Syntax[i])
		}
	}
	return nil, nil, fmt.Errorf("file %s not found in package %s", genBase, pkgPath)
}

func instrumentFile(p *packages.Package, f *ast.File) ([]byte, *Report, error) {
	in := &instr{info: p.TypesInfo, pkg: p.Types, fset: p.Fset, genFile: p.Fset.File(f.Pos()), rep: &Report{}}
	f.Comments = nil
	f.Doc = nil
	in.captured = capturedWrites(p.TypesInfo, p.Types, f)
	for _, d := range f.Decls {
		switch d := d.(type) {
		case *ast.FuncDecl:
			d.Doc = nil
			if d.Body == nil {
				continue
			}
			in.recv = nil
			in.fn = d.Name.Name
			if d.Recv != nil && len(d.Recv.List) == 1 && len(d.Recv.List[0].Names) == 1 {
				in.recv = in.info.Defs[d.Recv.List[0].Names[0]]
				in.rep.Methods++
			}
			d.Body.List = in.block(d.Body.List)
		case *ast.GenDecl:
			d.Doc = nil
			for _, s := range d.Specs {
				switch s := s.(type) {
				case *ast.TypeSpec:
					s.Doc, s.Comment = nil, nil
					ast.Inspect(s, func(n ast.Node) bool {
						if fl, ok := n.(*ast.Field); ok {
							fl.Doc, fl.Comment = nil, nil
						}
						return true
					})
				case *ast.ValueSpec:
					s.Doc, s.Comment = nil, nil
				}
			}
		}
	}
	// imports: redirect sync, add vrt
	for _, im := range f.Imports {
		path, _ := strconv.Unquote(im.Path.Value)
		if path == "sync" {
			name := "sync"
			if im.Name != nil {
				name = im.Name.Name
			}
			in.rep.SyncAlias = name
			im.Name = ast.NewIdent(name)
			im.Path.Value = strconv.Quote("verifrt/vsync")
		}
	}
	var buf bytes.Buffer
	if err := format.Node(&buf, p.Fset, f); err != nil {
		return nil, nil, err
	}
	src := buf.String()
	// add the vrt import textually after the package clause (robust against import block shapes)
	idx := strings.Index(src, "\nimport")
	imp := "\nimport verifvrt \"verifrt/vrt\"\n"
	src += "\nvar _ = verifvrt.Step\n"
	if idx < 0 {
		nl := strings.Index(src, "\n")
		src = src[:nl+1] + imp + src[nl+1:]
	} else {
		src = src[:idx] + imp + src[idx:]
	}
	out, err := format.Source([]byte(src))
	if err != nil {
		return nil, nil, fmt.Errorf("instrumented source does not parse: %v", err)
	}
	return out, in.rep, nil
}

// capturedWrites finds the local variables (parameters included) that some function literal writes to while
// they are declared outside that literal.
func capturedWrites(info *types.Info, pkg *types.Package, f *ast.File) map[*types.Var]bool {
	out := map[*types.Var]bool{}
	var lits []*ast.FuncLit
	root := func(e ast.Expr) *ast.Ident {
		for {
			switch x := e.(type) {
			case *ast.ParenExpr:
				e = x.X
			case *ast.IndexExpr:
				e = x.X
			case *ast.StarExpr:
				e = x.X
			case *ast.Ident:
				return x
			default:
				return nil
			}
		}
	}
	mark := func(e ast.Expr) {
		id := root(e)
		if id == nil || len(lits) == 0 {
			return
		}
		v, ok := info.Uses[id].(*types.Var)
		if !ok || v.IsField() || v.Parent() == pkg.Scope() || v.Parent() == types.Universe {
			return
		}
		for _, l := range lits {
			if v.Pos() < l.Pos() || v.Pos() > l.End() {
				out[v] = true
				return
			}
		}
	}
	var walk func(n ast.Node)
	walk = func(n ast.Node) {
		ast.Inspect(n, func(n ast.Node) bool {
			switch x := n.(type) {
			case *ast.FuncLit:
				lits = append(lits, x)
				walk(x.Body)
				lits = lits[:len(lits)-1]
				return false
			case *ast.AssignStmt:
				if x.Tok != token.DEFINE {
					for _, l := range x.Lhs {
						mark(l)
					}
				}
			case *ast.IncDecStmt:
				mark(x.X)
			case *ast.RangeStmt:
				if x.Tok == token.ASSIGN {
					if x.Key != nil {
						mark(x.Key)
					}
					if x.Value != nil {
						mark(x.Value)
					}
				}
			}
			return true
		})
	}
	walk(f)
	return out
}

func (in *instr) accessStmt(path string, write bool) ast.Stmt {
	k := "R"
	w := "false"
	if write {
		k, w = "W", "true"
	}
	in.rep.Accesses = append(in.rep.Accesses, fmt.Sprintf("%s: %s %s", in.fn, k, path))
	return &ast.ExprStmt{X: &ast.CallExpr{
		Fun:  &ast.SelectorExpr{X: ast.NewIdent("verifvrt"), Sel: ast.NewIdent("Access")},
		Args: []ast.Expr{&ast.BasicLit{Kind: token.STRING, Value: strconv.Quote(path)}, ast.NewIdent(w)},
	}}
}

// chain returns the shared-state path denoted by e ("" if none): a
// receiver-rooted chain of field selections, or a package-level variable of
// the generated file. ok=false means "this is a chain but must be ignored"
// (mutex-typed field).
func (in *instr) chain(e ast.Expr) (path string, skip bool) {
	switch e := e.(type) {
	case *ast.ParenExpr:
		return in.chain(e.X)
	case *ast.Ident:
		if v, ok := in.info.Uses[e].(*types.Var); ok && !v.IsField() && v.Parent() == in.pkg.Scope() {
			if in.fset.File(v.Pos()) == in.genFile {
				return "pkgvar:" + v.Name(), false
			}
		}
		if v, ok := in.info.Uses[e].(*types.Var); ok && in.captured[v] {
			return fmt.Sprintf("captured:%s@%d", v.Name(), in.fset.Position(v.Pos()).Line), false
		}
		return "", false
	case *ast.SelectorExpr:
		sel := in.info.Selections[e]
		if sel == nil || sel.Kind() != types.FieldVal {
			return "", false
		}
		var names []string
		cur := ast.Expr(e)
		for {
			se, ok := cur.(*ast.SelectorExpr)
			if !ok {
				break
			}
			s := in.info.Selections[se]
			if s == nil || s.Kind() != types.FieldVal {
				return "", false
			}
			names = append([]string{se.Sel.Name}, names...)
			cur = se.X
			if pe, ok := cur.(*ast.ParenExpr); ok {
				cur = pe.X
			}
		}
		id, ok := cur.(*ast.Ident)
		if !ok || in.recv == nil || in.info.Uses[id] != in.recv {
			return "", false
		}
		if isSyncType(sel.Type()) {
			return "", true
		}
		return strings.Join(names, "."), false
	}
	return "", false
}

func isSyncType(t types.Type) bool {
	if p, ok := t.(*types.Pointer); ok {
		t = p.Elem()
	}
	if n, ok := t.(*types.Named); ok && n.Obj().Pkg() != nil {
		pp := n.Obj().Pkg().Path()
		return pp == "sync" || pp == "verifrt/vsync" || pp == "sync/atomic"
	}
	return false
}

// reads collects the shared-state paths read by expression e (not descending
// into function literals, whose bodies are instrumented in place).
func (in *instr) reads(e ast.Node, out *[]string) {
	if e == nil {
		return
	}
	ast.Inspect(e, func(n ast.Node) bool {
		switch n := n.(type) {
		case *ast.FuncLit:
			n.Body.List = in.block(n.Body.List)
			return false
		case *ast.UnaryExpr:
			if n.Op == token.AND {
				if p, skip := in.chain(n.X); p != "" || skip {
					return false // address-of: not an access
				}
			}
		case *ast.SelectorExpr:
			p, skip := in.chain(n)
			if p != "" {
				*out = append(*out, p)
				return false
			}
			if skip {
				return false
			}
			// method value/call or non-shared selector: look at the operand
			in.reads(n.X, out)
			return false
		case *ast.Ident:
			if p, _ := in.chain(n); p != "" {
				*out = append(*out, p)
			}
		case *ast.KeyValueExpr:
			// composite literal keys may be field names: only the value is an expression here
			if _, isIdent := n.Key.(*ast.Ident); isIdent {
				in.reads(n.Value, out)
				return false
			}
		}
		return true
	})
}

// lhsRoot returns the shared path written by an assignment target.
func (in *instr) lhsRoot(e ast.Expr, reads *[]string) string {
	switch x := e.(type) {
	case *ast.ParenExpr:
		return in.lhsRoot(x.X, reads)
	case *ast.IndexExpr:
		in.reads(x.Index, reads)
		return in.lhsRoot(x.X, reads)
	case *ast.StarExpr:
		return in.lhsRoot(x.X, reads)
	}
	if p, _ := in.chain(e); p != "" {
		return p
	}
	in.reads(e, reads)
	return ""
}

func (in *instr) tmp() *ast.Ident {
	in.tmpN++
	return ast.NewIdent(fmt.Sprintf("_vtmp%d", in.tmpN))
}

func (in *instr) block(list []ast.Stmt) []ast.Stmt {
	var out []ast.Stmt
	for _, s := range list {
		out = append(out, in.stmt(s)...)
	}
	return out
}

func (in *instr) emit(reads, writes []string, s ast.Stmt) []ast.Stmt {
	var out []ast.Stmt
	seen := map[string]bool{}
	for _, r := range reads {
		if !seen["R"+r] {
			seen["R"+r] = true
			out = append(out, in.accessStmt(r, false))
		}
	}
	for _, w := range writes {
		if !seen["W"+w] {
			seen["W"+w] = true
			out = append(out, in.accessStmt(w, true))
		}
	}
	return append(out, s)
}

func (in *instr) stmt(s ast.Stmt) []ast.Stmt {
	var reads, writes []string
	switch s := s.(type) {
	case *ast.AssignStmt:
		// X = append(X, ...)  and  X op= e  are split into read / write steps
		if len(s.Lhs) == 1 && len(s.Rhs) == 1 {
			if lp, _ := in.chain(s.Lhs[0]); lp != "" {
				if s.Tok == token.ASSIGN {
					if call, ok := s.Rhs[0].(*ast.CallExpr); ok && len(call.Args) > 0 {
						if id, ok := call.Fun.(*ast.Ident); ok && id.Name == "append" {
							if ap, _ := in.chain(call.Args[0]); ap == lp {
								for _, a := range call.Args[1:] {
									in.reads(a, &reads)
								}
								t := in.tmp()
								pre := in.emit(reads, nil, in.accessStmt(lp, false))
								pre = append(pre, &ast.AssignStmt{Lhs: []ast.Expr{t}, Tok: token.DEFINE, Rhs: []ast.Expr{call.Args[0]}})
								pre = append(pre, in.accessStmt(lp, true))
								call.Args[0] = t
								return append(pre, s)
							}
						}
					}
				} else if s.Tok != token.DEFINE {
					// compound assignment
					op := map[token.Token]token.Token{token.ADD_ASSIGN: token.ADD, token.SUB_ASSIGN: token.SUB, token.MUL_ASSIGN: token.MUL, token.QUO_ASSIGN: token.QUO, token.REM_ASSIGN: token.REM,
						token.AND_ASSIGN: token.AND, token.OR_ASSIGN: token.OR, token.XOR_ASSIGN: token.XOR, token.SHL_ASSIGN: token.SHL, token.SHR_ASSIGN: token.SHR, token.AND_NOT_ASSIGN: token.AND_NOT}[s.Tok]
					in.reads(s.Rhs[0], &reads)
					t := in.tmp()
					pre := in.emit(reads, nil, in.accessStmt(lp, false))
					pre = append(pre, &ast.AssignStmt{Lhs: []ast.Expr{t}, Tok: token.DEFINE, Rhs: []ast.Expr{s.Lhs[0]}})
					pre = append(pre, in.accessStmt(lp, true))
					return append(pre, &ast.AssignStmt{Lhs: s.Lhs, Tok: token.ASSIGN, Rhs: []ast.Expr{&ast.BinaryExpr{X: t, Op: op, Y: &ast.ParenExpr{X: s.Rhs[0]}}}})
				}
			}
		}
		for _, r := range s.Rhs {
			in.reads(r, &reads)
		}
		for _, l := range s.Lhs {
			if s.Tok == token.DEFINE {
				continue
			}
			if p := in.lhsRoot(l, &reads); p != "" {
				writes = append(writes, p)
				if s.Tok != token.ASSIGN {
					reads = append(reads, p)
				}
			}
		}
		return in.emit(reads, writes, s)
	case *ast.IncDecStmt:
		if lp, _ := in.chain(s.X); lp != "" {
			t := in.tmp()
			op := token.ADD
			if s.Tok == token.DEC {
				op = token.SUB
			}
			return []ast.Stmt{in.accessStmt(lp, false),
				&ast.AssignStmt{Lhs: []ast.Expr{t}, Tok: token.DEFINE, Rhs: []ast.Expr{s.X}},
				in.accessStmt(lp, true),
				&ast.AssignStmt{Lhs: []ast.Expr{s.X}, Tok: token.ASSIGN, Rhs: []ast.Expr{&ast.BinaryExpr{X: t, Op: op, Y: &ast.BasicLit{Kind: token.INT, Value: "1"}}}}}
		}
		if p := in.lhsRoot(s.X, &reads); p != "" {
			reads = append(reads, p)
			writes = append(writes, p)
		}
		return in.emit(reads, writes, s)
	case *ast.ExprStmt:
		in.reads(s.X, &reads)
	case *ast.ReturnStmt:
		for _, r := range s.Results {
			in.reads(r, &reads)
		}
	case *ast.DeclStmt:
		in.reads(s.Decl, &reads)
	case *ast.SendStmt:
		in.reads(s.Chan, &reads)
		in.reads(s.Value, &reads)
	case *ast.GoStmt:
		in.reads(s.Call, &reads)
	case *ast.DeferStmt:
		in.reads(s.Call, &reads)
	case *ast.BlockStmt:
		s.List = in.block(s.List)
		return []ast.Stmt{s}
	case *ast.IfStmt:
		var pre []ast.Stmt
		if s.Init != nil {
			is := in.stmt(s.Init)
			pre = append(pre, is[:len(is)-1]...)
			s.Init = is[len(is)-1]
		}
		in.reads(s.Cond, &reads)
		s.Body.List = in.block(s.Body.List)
		if s.Else != nil {
			es := in.stmt(s.Else)
			if len(es) == 1 {
				s.Else = es[0]
			} else {
				s.Else = &ast.BlockStmt{List: es}
			}
		}
		return append(pre, in.emit(reads, nil, s)...)
	case *ast.ForStmt:
		if s.Init != nil {
			in.reads(s.Init, &reads)
		}
		in.reads(s.Cond, &reads)
		if s.Post != nil {
			in.reads(s.Post, &reads)
		}
		s.Body.List = in.block(s.Body.List)
	case *ast.RangeStmt:
		in.reads(s.X, &reads)
		s.Body.List = in.block(s.Body.List)
	case *ast.SwitchStmt:
		if s.Init != nil {
			in.reads(s.Init, &reads)
		}
		in.reads(s.Tag, &reads)
		for _, c := range s.Body.List {
			cc := c.(*ast.CaseClause)
			for _, e := range cc.List {
				in.reads(e, &reads)
			}
			cc.Body = in.block(cc.Body)
		}
	case *ast.TypeSwitchStmt:
		if s.Init != nil {
			in.reads(s.Init, &reads)
		}
		in.reads(s.Assign, &reads)
		for _, c := range s.Body.List {
			cc := c.(*ast.CaseClause)
			cc.Body = in.block(cc.Body)
		}
	case *ast.SelectStmt:
		for _, c := range s.Body.List {
			cc := c.(*ast.CommClause)
			if cc.Comm != nil {
				in.reads(cc.Comm, &reads)
			}
			cc.Body = in.block(cc.Body)
		}
	case *ast.LabeledStmt:
		inner := in.stmt(s.Stmt)
		s.Stmt = inner[len(inner)-1]
		return append(inner[:len(inner)-1], s)
	}
	return in.emit(reads, writes, s)
}
