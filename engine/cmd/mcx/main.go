// mcx — model-checking harness for vektra/mockery (see /verif/DESIGN.md).
package main

import (
	"flag"
	"fmt"
	"os"
	"sort"

	"verif/engine/checks"
	"verif/engine/core"
)

func usage() {
	fmt.Fprintln(os.Stderr, "usage: mcx check <id> [--tier quick|thorough] | mcx replay <path> | mcx list")
	os.Exit(2)
}

func main() {
	if len(os.Args) < 2 {
		usage()
	}
	switch os.Args[1] {
	case "list":
		ids := []string{}
		for id := range checks.Registry {
			ids = append(ids, id)
		}
		sort.Strings(ids)
		for _, id := range ids {
			fmt.Println(id)
		}
	case "warm":
		c, err := core.NewCtx("warm", "quick")
		if err != nil {
			os.Exit(2)
		}
		defer c.Close()
		if err := c.BuildMockery(); err != nil {
			fmt.Fprintln(os.Stderr, err)
			c.Close()
			os.Exit(2)
		}
		checks.Warm(c)
		core.FinishWarm()
	case "check":
		if len(os.Args) < 3 {
			usage()
		}
		id := os.Args[2]
		fs := flag.NewFlagSet("check", flag.ExitOnError)
		tier := fs.String("tier", "", "quick|thorough")
		fs.Parse(os.Args[3:])
		if *tier == "" {
			*tier = os.Getenv("VERIF_TIER")
		}
		if *tier == "" {
			*tier = "quick"
		}
		fn, ok := checks.Registry[id]
		if !ok {
			fmt.Fprintln(os.Stderr, "unknown check", id)
			os.Exit(2)
		}
		os.Exit(runCheck(id, *tier, fn))
	case "replay":
		if len(os.Args) < 3 {
			usage()
		}
		os.Exit(checks.Replay(os.Args[2]))
	default:
		usage()
	}
}

func runCheck(id, tier string, fn checks.CheckFunc) (code int) {
	c, err := core.NewCtx(id, tier)
	if err != nil {
		fmt.Fprintln(os.Stderr, "setup:", err)
		return 2
	}
	defer c.Close()
	defer func() {
		if r := recover(); r != nil {
			fmt.Fprintf(os.Stderr, "HARNESS-PANIC: %v\n", r)
			panic(r)
		}
	}()
	if err := fn(c); err != nil {
		c.Harness("%v", err)
	}
	return c.Finish()
}
