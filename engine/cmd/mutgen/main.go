// mutgen enumerates small syntactic mutants of one Go source file (self-test of the checks, DESIGN §13:
// "mutation sweep"). It never decides a property; it only produces changed copies of a file.
//
//	mutgen list  <file.go>                 one line per mutant: index, line, kind, text
//	mutgen apply <file.go> <index> <out>   writes the mutated file
//
// Mutation kinds: relational / logical / arithmetic operator swaps, negated if-conditions, dropped
// expression statements and assignments, break<->continue, 0<->1 literals, dropped else-branches,
// "return early" removal is not attempted (usually does not compile).
package main

import (
	"fmt"
	"go/ast"
	"go/parser"
	"go/token"
	"os"
	"sort"
	"strconv"
)

type edit struct {
	start, end int
	repl       string
	line       int
	kind       string
}

var swaps = map[token.Token]string{
	token.EQL: "!=", token.NEQ: "==", token.LSS: "<=", token.LEQ: "<", token.GTR: ">=", token.GEQ: ">",
	token.LAND: "||", token.LOR: "&&", token.ADD: "-", token.SUB: "+",
}

func collect(fset *token.FileSet, f *ast.File, src []byte) []edit {
	var out []edit
	off := func(p token.Pos) int { return fset.Position(p).Offset }
	line := func(p token.Pos) int { return fset.Position(p).Line }
	ast.Inspect(f, func(n ast.Node) bool {
		switch x := n.(type) {
		case *ast.BinaryExpr:
			if r, ok := swaps[x.Op]; ok {
				if x.Op == token.ADD {
					// string concatenation: "-" does not compile; skip when an operand is a string literal
					if isStr(x.X) || isStr(x.Y) {
						return true
					}
				}
				s := off(x.OpPos)
				out = append(out, edit{s, s + len(x.Op.String()), r, line(x.OpPos), "op " + x.Op.String() + "->" + r})
			}
		case *ast.IfStmt:
			s, e := off(x.Cond.Pos()), off(x.Cond.End())
			out = append(out, edit{s, e, "!(" + string(src[s:e]) + ")", line(x.Cond.Pos()), "negate-if"})
			if x.Else != nil {
				if b, ok := x.Else.(*ast.BlockStmt); ok {
					out = append(out, edit{off(b.Lbrace) + 1, off(b.Rbrace), "", line(b.Lbrace), "empty-else"})
				}
			}
		case *ast.BlockStmt:
			for _, st := range x.List {
				switch y := st.(type) {
				case *ast.ExprStmt:
					out = append(out, edit{off(y.Pos()), off(y.End()), "", line(y.Pos()), "drop-call"})
				case *ast.AssignStmt:
					if y.Tok == token.ASSIGN || y.Tok == token.ADD_ASSIGN {
						out = append(out, edit{off(y.Pos()), off(y.End()), "", line(y.Pos()), "drop-assign"})
					}
				case *ast.BranchStmt:
					if y.Label == nil && y.Tok == token.CONTINUE {
						out = append(out, edit{off(y.Pos()), off(y.End()), "break", line(y.Pos()), "continue->break"})
					}
					if y.Label == nil && y.Tok == token.BREAK {
						out = append(out, edit{off(y.Pos()), off(y.End()), "continue", line(y.Pos()), "break->continue"})
					}
				case *ast.DeferStmt:
					out = append(out, edit{off(y.Pos()), off(y.End()), "", line(y.Pos()), "drop-defer"})
				}
			}
		case *ast.BasicLit:
			if x.Kind == token.INT {
				if x.Value == "0" {
					out = append(out, edit{off(x.Pos()), off(x.End()), "1", line(x.Pos()), "0->1"})
				} else if x.Value == "1" {
					out = append(out, edit{off(x.Pos()), off(x.End()), "0", line(x.Pos()), "1->0"})
				}
			}
		case *ast.Ident:
			if x.Name == "true" && x.Obj == nil {
				out = append(out, edit{off(x.Pos()), off(x.End()), "false", line(x.Pos()), "true->false"})
			} else if x.Name == "false" && x.Obj == nil {
				out = append(out, edit{off(x.Pos()), off(x.End()), "true", line(x.Pos()), "false->true"})
			}
		}
		return true
	})
	sort.SliceStable(out, func(i, j int) bool { return out[i].start < out[j].start })
	return out
}

func isStr(e ast.Expr) bool {
	b, ok := e.(*ast.BasicLit)
	return ok && b.Kind == token.STRING
}

func main() {
	if len(os.Args) < 3 {
		fmt.Fprintln(os.Stderr, "usage: mutgen list <file> | mutgen apply <file> <index> <out>")
		os.Exit(2)
	}
	src, err := os.ReadFile(os.Args[2])
	if err != nil {
		fmt.Fprintln(os.Stderr, err)
		os.Exit(2)
	}
	fset := token.NewFileSet()
	f, err := parser.ParseFile(fset, os.Args[2], src, parser.ParseComments)
	if err != nil {
		fmt.Fprintln(os.Stderr, err)
		os.Exit(2)
	}
	eds := collect(fset, f, src)
	switch os.Args[1] {
	case "list":
		for i, e := range eds {
			txt := string(src[e.start:e.end])
			if len(txt) > 60 {
				txt = txt[:60] + "..."
			}
			fmt.Printf("%d\t%d\t%s\t%q\n", i, e.line, e.kind, txt)
		}
	case "apply":
		i, err := strconv.Atoi(os.Args[3])
		if err != nil || i < 0 || i >= len(eds) {
			fmt.Fprintln(os.Stderr, "bad index")
			os.Exit(2)
		}
		e := eds[i]
		out := append(append(append([]byte{}, src[:e.start]...), e.repl...), src[e.end:]...)
		if err := os.WriteFile(os.Args[4], out, 0o644); err != nil {
			fmt.Fprintln(os.Stderr, err)
			os.Exit(2)
		}
	}
}
