module verif/engine

go 1.23

require (
	github.com/anishathalye/porcupine v1.3.0
	golang.org/x/tools v0.31.0
	gopkg.in/yaml.v3 v3.0.1
)
