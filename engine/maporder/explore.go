package maporder

import (
	"os"
	"strconv"
	"strings"
)

type TracePoint struct {
	Site   string
	N      int
	Choice int
}

func Alternatives(n int) int {
	switch {
	case n <= 1:
		return 1
	case n == 2:
		return 2
	case n == 3:
		return 6
	}
	return 2 * n
}

func ReadTrace(path string) []TracePoint {
	b, err := os.ReadFile(path)
	if err != nil {
		return nil
	}
	var out []TracePoint
	for _, l := range strings.Split(strings.TrimSpace(string(b)), "\n") {
		f := strings.Fields(l)
		if len(f) != 3 {
			continue
		}
		n, _ := strconv.Atoi(f[1])
		c, _ := strconv.Atoi(f[2])
		out = append(out, TracePoint{f[0], n, c})
	}
	return out
}

func ChoicesString(c []int) string {
	s := make([]string, len(c))
	for i, v := range c {
		s[i] = strconv.Itoa(v)
	}
	return strings.Join(s, ",")
}

// Frontier enumerates choice lists by increasing number of deviations. run
// executes one choice list and returns the trace it produced. Exploration is
// level by level (all 0-deviation, then 1-deviation, ...) so that work within
// a level can be done in parallel by the caller-provided batch function.
//
// next(batch) must run every choice list of the batch and return their traces.
func Explore(maxDev int, runBatch func(batch [][]int) [][]TracePoint, limit int) (executions int, truncated bool) {
	level := [][]int{nil}
	for dev := 0; dev <= maxDev && len(level) > 0; dev++ {
		if limit > 0 && executions+len(level) > limit {
			level = level[:limit-executions]
			truncated = true
		}
		traces := runBatch(level)
		executions += len(level)
		if truncated || dev == maxDev {
			break
		}
		var nextLevel [][]int
		for li, prefix := range level {
			tr := traces[li]
			// positions at or after the last non-zero choice of prefix may deviate next
			// (earlier ones were covered by another prefix of this level)
			start := len(prefix)
			for i := start; i < len(tr); i++ {
				for alt := 1; alt < Alternatives(tr[i].N); alt++ {
					np := make([]int, i+1)
					copy(np, prefix)
					np[i] = alt
					nextLevel = append(nextLevel, np)
				}
			}
		}
		level = nextLevel
	}
	return
}
