// Package maporder is the build-time and exploration half of engine E5: it
// rewrites every `range` over a map in mockery's own packages (in the scratch
// copy of the tree) into iteration over an explorer-chosen permutation, and
// enumerates the permutations by stateless DFS with a deviation bound.
package maporder

import (
	"fmt"
	"go/ast"
	"go/types"
	"os"
	"path/filepath"
	"sort"
	"strings"

	"golang.org/x/tools/go/packages"

	"verif/engine/assets"
)

const verifmoImport = "github.com/vektra/mockery/v3/internal/verifmo"

var Packages = []string{"./config", "./internal", "./internal/cmd", "./template", "./template_funcs"}

// Rewrite instruments the copy of the tree at repoDir. It returns the list of
// rewritten sites ("file:line").
func Rewrite(repoDir string, env []string) ([]string, error) {
	cfg := &packages.Config{
		Mode: packages.NeedName | packages.NeedFiles | packages.NeedCompiledGoFiles | packages.NeedSyntax | packages.NeedTypes | packages.NeedTypesInfo | packages.NeedImports | packages.NeedDeps,
		Dir:  repoDir,
		Env:  env,
	}
	pkgs, err := packages.Load(cfg, Packages...)
	if err != nil {
		return nil, err
	}
	type repl struct {
		start, end int
		site       string
	}
	perFile := map[string][]repl{}
	var sites []string
	for _, p := range pkgs {
		if len(p.Errors) > 0 {
			return nil, fmt.Errorf("package %s: %v", p.PkgPath, p.Errors[0])
		}
		for i, f := range p.Syntax {
			fname := p.CompiledGoFiles[i]
			if strings.HasSuffix(fname, "_test.go") {
				continue
			}
			var ferr error
			ast.Inspect(f, func(n ast.Node) bool {
				rs, ok := n.(*ast.RangeStmt)
				if !ok {
					return true
				}
				t := p.TypesInfo.TypeOf(rs.X)
				if t == nil {
					return true
				}
				m, ok := t.Underlying().(*types.Map)
				if !ok {
					return true
				}
				if b, ok := m.Key().Underlying().(*types.Basic); !ok || b.Info()&types.IsOrdered == 0 {
					ferr = fmt.Errorf("%s: range over map with non-ordered key type %s is not handled", p.Fset.Position(rs.Pos()), m.Key())
					return false
				}
				pos := p.Fset.Position(rs.X.Pos())
				end := p.Fset.Position(rs.X.End())
				rel, _ := filepath.Rel(repoDir, fname)
				site := fmt.Sprintf("%s:%d", rel, pos.Line)
				perFile[fname] = append(perFile[fname], repl{pos.Offset, end.Offset, site})
				sites = append(sites, site)
				return true
			})
			if ferr != nil {
				return nil, ferr
			}
		}
	}
	for fname, rs := range perFile {
		b, err := os.ReadFile(fname)
		if err != nil {
			return nil, err
		}
		src := string(b)
		sort.Slice(rs, func(i, j int) bool { return rs[i].start > rs[j].start })
		for _, r := range rs {
			src = src[:r.start] + "verifmo.Range(" + src[r.start:r.end] + ", " + fmt.Sprintf("%q", r.site) + ")" + src[r.end:]
		}
		// import right after the package clause
		idx := strings.Index(src, "\npackage ")
		if strings.HasPrefix(src, "package ") {
			idx = -1
		}
		lineEnd := strings.Index(src[idx+1:], "\n") + idx + 1
		src = src[:lineEnd+1] + "\nimport verifmo \"" + verifmoImport + "\"\n" + src[lineEnd+1:]
		if err := os.WriteFile(fname, []byte(src), 0o644); err != nil {
			return nil, err
		}
	}
	dir := filepath.Join(repoDir, "internal", "verifmo")
	os.MkdirAll(dir, 0o755)
	if err := os.WriteFile(filepath.Join(dir, "verifmo.go"), []byte(assets.Must("maporder/verifmo.go.txt")), 0o644); err != nil {
		return nil, err
	}
	sort.Strings(sites)
	return sites, nil
}
