package checks

import (
	"encoding/json"
	"fmt"
	"os"
	"path/filepath"
	"regexp"
	"sort"
	"strings"
	"sync"
	"time"

	"verif/engine/assets"
	"verif/engine/core"
)

func init() { Registry["C04"] = C04 }

// drvBuild generates mocks for the corpus with the given template/template-data
// (at root or at interface level), writes the reflection driver next to them and
// builds it. Interfaces whose generated file does not compile are dropped (that
// is C01's subject) and listed in skipped.
type drvBuildResult struct {
	bin     string
	skipped []string
	genErr  string
	dir     string
}

var drvFileRe = regexp.MustCompile(`p/mock_(I\d+)\.go:\d+`)

// drvGlue: flags, when given, adds per-mock flags to the glue (mocks of one file generated with different template-data).
func drvGlue(ifaces []corpIface, newExpr func(it corpIface) string, flags ...func(it corpIface) string) string {
	var b strings.Builder
	b.WriteString("package main\n\nimport (\n\t\"reflect\"\n\n\t\"example.com/m/p\"\n)\n\nvar mocks = []mockDesc{\n")
	for _, it := range ifaces {
		ms := append([]corpMethod{}, it.Methods...)
		sort.Slice(ms, func(i, j int) bool { return ms[i].Name < ms[j].Name })
		extra := ""
		if len(flags) > 0 && flags[0] != nil {
			extra = flags[0](it) + ", "
		}
		fmt.Fprintf(&b, "\t{Iface: %q, Struct: %q, New: %s, %sType: reflect.TypeOf((*p.%s)(nil)).Elem(), Methods: []methodDesc{", it.Name, "Mock"+it.Name, newExpr(it), extra, it.Name)
		for _, m := range ms {
			var ps []string
			for _, p := range m.Params {
				ps = append(ps, fmt.Sprintf("%q", p.Name))
			}
			fmt.Fprintf(&b, "{Name: %q, Params: []string{%s}},", m.Name, strings.Join(ps, ", "))
		}
		b.WriteString("}},\n")
	}
	b.WriteString("}\n")
	return b.String()
}

func drvBuild(c *core.Ctx, name, template string, data core.M, level string, ifaces []corpIface, mainAsset string, newExpr func(it corpIface) string, flags ...func(it corpIface) string) (*drvBuildResult, error) {
	cfg := core.M{
		"template": template, "formatter": "goimports", "force-file-write": true, "log-level": "error",
		"dir": "{{.InterfaceDir}}", "filename": "mock_{{.InterfaceName}}.go", "pkgname": "p",
	}
	ifc := core.M{}
	neg := core.M{}
	for k, v := range data {
		if b, ok := v.(bool); ok {
			neg[k] = !b
		}
	}
	for i, it := range ifaces {
		switch {
		case level == "iface", level == "mixed" && i%2 == 0:
			ifc[it.Name] = core.M{"config": core.M{"template-data": data}}
		case level == "mixed+root" && i%2 == 0:
			// the data is written at the top level and switched off again on every other interface
			ifc[it.Name] = core.M{"config": core.M{"template-data": neg}}
		default:
			ifc[it.Name] = core.M{}
		}
	}
	if level == "root" || level == "mixed+root" {
		cfg["template-data"] = data
	}
	if level == "mixed" || level == "mixed+root" {
		// all mocks in ONE file: what one interface's settings switch on must not carry over to the next one rendered
		cfg["filename"] = "mocks_all.go"
	}
	cfg["packages"] = core.M{core.ModPath + "/p": core.M{"interfaces": ifc}}
	m, err := c.NewModule(name, map[string]string{"p/p.go": corpusSource(ifaces), ".mockery.yml": core.YAML(cfg)})
	if err != nil {
		return nil, err
	}
	res := &drvBuildResult{dir: m.Dir}
	r := c.RunMockery(m.Dir, nil)
	if r.Exit != 0 {
		res.genErr = fmt.Sprintf("mockery exit %d: %s", r.Exit, firstN(r.Stderr+r.Stdout, 800))
		return res, nil
	}
	core.WriteTree(m.Dir, map[string]string{"main.go": assets.Must(mainAsset), "values.go": assets.Must("drv/values.go.txt")})
	live := append([]corpIface{}, ifaces...)
	bin := filepath.Join(c.Scratch, "bin", name)
	for attempt := 0; attempt < 6; attempt++ {
		core.WriteTree(m.Dir, map[string]string{"glue.go": drvGlue(live, newExpr, flags...)})
		rb := core.Run(m.Dir, core.UserEnv(), 10*time.Minute, "", "go", "build", "-gcflags=-e", "-o", bin, ".")
		if rb.Exit == 0 {
			res.bin = bin
			return res, nil
		}
		bad := map[string]string{}
		for _, l := range strings.Split(rb.Stderr, "\n") {
			if mm := drvFileRe.FindStringSubmatch(l); mm != nil {
				if _, ok := bad[mm[1]]; !ok {
					bad[mm[1]] = strings.TrimSpace(l)
				}
			}
		}
		if len(bad) == 0 {
			if strings.Contains(rb.Stderr, "p/mocks_all.go:") {
				// the shared file of a mixed-settings variant (interfaces without hostile names): the mocks cannot
				// forward anything if they do not compile
				res.genErr = "the generated mocks do not compile: " + firstN(rb.Stderr, 600)
				return res, nil
			}
			return res, fmt.Errorf("driver for %s does not build: %s", name, firstN(rb.Stderr, 1500))
		}
		var keep []corpIface
		for _, it := range live {
			if msg, ok := bad[it.Name]; ok {
				res.skipped = append(res.skipped, it.Name+": "+msg)
				os.Remove(filepath.Join(m.Dir, "p", "mock_"+it.Name+".go"))
				continue
			}
			keep = append(keep, it)
		}
		// the source interfaces stay; only mocks are removed
		live = keep
	}
	return res, fmt.Errorf("driver for %s still does not build after dropping uncompilable mocks", name)
}

type c04Result struct {
	Methods    int `json:"methods"`
	Histories  int `json:"histories"`
	Steps      int `json:"steps"`
	States     int `json:"model_states"`
	Panics     int `json:"nil_func_panics"`
	Violations []struct {
		Iface  string   `json:"iface"`
		Method string   `json:"method"`
		Decl   string   `json:"decl"`
		Ops    []string `json:"ops"`
		What   string   `json:"what"`
		Sig    string   `json:"sig"`
	} `json:"violations"`
	Samples []string `json:"samples"`
}

func C04(c *core.Ctx) error {
	if err := c.BuildMockery(); err != nil {
		return err
	}
	quick := core.Quick(c.Tier)
	ifaces := corpus([]string{"mock", "callInfo", "calls", "sync", "fmt", "lockBase", "Id", "Url", "hTTp", "api", "iD"}, !quick)
	plainIfaces := corpus(nil, !quick)
	depth := 4
	if !quick {
		depth = 5
	}
	type variant struct {
		name                string
		skip, stub, resets  bool
		level               string
	}
	var variants []variant
	for _, level := range []string{"root", "iface", "mixed", "mixed+root"} {
		for i := 0; i < 8; i++ {
			if strings.HasPrefix(level, "mixed") && i == 0 {
				continue
			}
			if level == "mixed+root" && quick && i != 2 && i != 7 {
				continue // quick: stub-impl alone and all three keys
			}
			v := variant{skip: i&1 != 0, stub: i&2 != 0, resets: i&4 != 0, level: level}
			v.name = fmt.Sprintf("skip-ensure=%v,stub-impl=%v,with-resets=%v@%s", v.skip, v.stub, v.resets, level)
			variants = append(variants, v)
		}
	}
	var mu sync.Mutex
	total := c04Result{}
	skippedAll := map[string]bool{}
	done := 0
	core.ParallelFor(len(variants), func(i int) {
		v := variants[i]
		data := core.M{}
		if v.skip {
			data["skip-ensure"] = true
		}
		if v.stub {
			data["stub-impl"] = true
		}
		if v.resets {
			data["with-resets"] = true
		}
		var flags func(it corpIface) string
		if strings.HasPrefix(v.level, "mixed") {
			// the data goes to every other interface of the file (those at even positions) -- or to the top level
			// and is switched off on those --: each mock is driven with its own effective settings
			pos := map[string]int{}
			for k, it := range plainIfaces {
				pos[it.Name] = k
			}
			flags = func(it corpIface) string {
				on := pos[it.Name]%2 == 0
				if v.level == "mixed+root" {
					on = !on
				}
				return fmt.Sprintf("Flags: map[string]bool{\"stub\": %v, \"resets\": %v}", on && v.stub, on && v.resets)
			}
		}
		vIfaces := ifaces
		if strings.HasPrefix(v.level, "mixed") {
			vIfaces = plainIfaces // one shared file: an uncompilable mock (C01's subject) would take the others with it
		}
		b, err := drvBuild(c, fmt.Sprintf("c04-%d", i), "matryer", data, v.level, vIfaces, "c04/main.go.txt", func(it corpIface) string {
			return fmt.Sprintf("func() any { return &p.Mock%s{} }", it.Name)
		}, flags)
		if err != nil {
			c.Harness("%s: %v", v.name, err)
			return
		}
		if b.genErr != "" {
			c.Report("generate:"+v.name, "mockery failed on the method corpus with template-data "+v.name+": "+b.genErr, map[string]any{"variant": v.name})
			return
		}
		args := []string{fmt.Sprintf("-depth=%d", depth)}
		if v.stub && !strings.HasPrefix(v.level, "mixed") {
			args = append(args, "-stub")
		}
		if v.resets && !strings.HasPrefix(v.level, "mixed") {
			args = append(args, "-resets")
		}
		r := core.Run(b.dir, core.UserEnv(), 40*time.Minute, "", b.bin, args...)
		if core.ResourceFailure(r) {
			c.Skip("driver run timed out or was killed: %v", args)
			return
		}
		var res c04Result
		if r.Exit != 0 || json.Unmarshal([]byte(lastLine(r.Stdout)), &res) != nil {
			// a missing Reset method etc. surfaces as a driver panic: that is an observation about the mock
			c.Report("driver:"+v.name+":"+panicSig(r.Stderr), fmt.Sprintf("driver terminated abnormally on mocks generated with %s: %s", v.name, firstN(r.Stderr, 700)), map[string]any{"variant": v.name, "args": args})
			return
		}
		mu.Lock()
		defer mu.Unlock()
		done++
		total.Methods += res.Methods
		total.Histories += res.Histories
		total.Steps += res.Steps
		total.States += res.States
		total.Panics += res.Panics
		for _, s := range b.skipped {
			skippedAll[s] = true
		}
		for _, s := range res.Samples {
			c.Ev.Sample(v.name + ": " + s)
		}
		for _, vi := range res.Violations {
			key := fmt.Sprintf("%s:%s:%s", vi.Sig, vi.Decl, strings.Join(vi.Ops, ";"))
			c.Report(key, fmt.Sprintf("[%s] %s.%s after %v: %s", v.name, vi.Iface, vi.Decl, vi.Ops, vi.What),
				map[string]any{"variant": v.name, "iface": vi.Iface, "method": vi.Decl, "ops": vi.Ops, "what": vi.What})
		}
	})
	// ---- "one record per call, in call order" when the calls come from two goroutines: the schedule explorer of
	// C05 (engine E4) on the matryer harness, two threads with one or two operations each, preemption bound 1
	concExec := c04Concurrent(c)
	c.Ev.Set("concurrent_executions", concExec)
	c.Ev.Set("states", total.States)
	c.Ev.Set("transitions", total.Steps)
	c.Ev.Set("traces_validated_against_impl", total.Histories)
	c.Ev.Set("evaluations", total.Histories)
	c.Ev.Set("distinct_nontrivial", total.States)
	c.Ev.Set("methods_x_variants", total.Methods)
	c.Ev.Set("nil_func_panics_observed", total.Panics)
	c.Ev.Set("variants", len(variants))
	c.Ev.Set("history_depth", depth)
	c.Ev.Set("corpus_interfaces", len(ifaces))
	c.Ev.Set("skipped_uncompilable_mocks", core.SortedKeys(skippedAll))
	c.Ev.Set("exhaustive", done == len(variants))
	c.Ev.Set("rule", "for every corpus method (focus M, neighbour O in the same interface) and every template-data combination skip-ensure x stub-impl x with-resets, set at root level, at interface level on every interface, and at interface level on every other interface of the file (each mock then driven with its own effective settings): all operation sequences up to the depth over {set MFunc f0/f2/f6 (reads MCalls() and calls M(a1) once more from inside)/nil, call M with 3 argument tuples incl. zero/nil/empty-variadic, call O, MCalls, ResetMCalls, ResetCalls}, each replayed on a fresh mock through reflection and compared step by step with the list model (exactly-once forwarding, results unchanged, records = arguments in order under exported(parameter name), nil func => panic naming MFunc or stub zero values, resets clear exactly their list, earlier snapshots unchanged); states = distinct (method, model state) pairs reached; plus every schedule (preemption bound 1) of two goroutines with up to two operations each on one mock (C05's explorer): records neither lost, duplicated nor mixed up")
	c.Ev.Assume("a history ends at the nil-func panic, after an epilogue on the same mock: the records can be read (with or without a record of the panicking call: the statement does not say), the function set, the call made and recorded, the resets return")
	c.Ev.Assume("mocks that do not compile are C01's subject and are skipped here (listed in skipped_uncompilable_mocks)")
	return nil
}

func panicSig(stderr string) string {
	for _, l := range strings.Split(stderr, "\n") {
		if strings.HasPrefix(l, "panic:") {
			return firstN(l, 120)
		}
	}
	return "no-panic-line"
}

// c04Concurrent explores every schedule (preemption bound 1) of two threads calling / reading / resetting one
// matryer mock and reports lost, duplicated or mixed-up records and data races as C04 violations.
func c04Concurrent(c *core.Ctx) int {
	execs := 0
	for _, v := range []c05Variant{
		{"matryer", "matryer", core.M{"with-resets": true}, "c05/matryer_main.go.txt", false, nil, c05iface, "c05/iface_i.go.txt"},
		{"matryer-noparams", "matryer", core.M{"with-resets": true}, "c05/matryer_main.go.txt", false, nil, c05ifaceNoParams, "c05/iface_j.go.txt"},
	} {
		bin, _, gen, err := c05Build(c, "c04conc-"+v.name, v.template, v.data, v.asset, v.testify, v.ifaceSrc, v.ifaceAst)
		if err != nil {
			if strings.HasPrefix(err.Error(), "GENFAIL") {
				c.Report("concurrent-build:"+v.name, err.Error(), map[string]any{"variant": v.name, "generated": gen})
			} else {
				c.Harness("concurrent slice %s: %v", v.name, err)
			}
			continue
		}
		args := []string{"-bound=1", "-t2len=2", "-t3len=0", "-shard=0", "-nshard=1", "-deadline=300"}
		r := core.Run(c.Scratch, append(core.UserEnv(), "GOMAXPROCS=2"), 10*time.Minute, "", bin, args...)
		if core.ResourceFailure(r) {
			c.Skip("concurrent slice %s timed out or was killed", v.name)
			continue
		}
		var res c05Result
		if r.Exit != 0 || json.Unmarshal([]byte(lastLine(r.Stdout)), &res) != nil {
			c.Harness("concurrent slice %s: exit %d: %s", v.name, r.Exit, firstN(r.Stderr+r.Stdout, 600))
			continue
		}
		execs += res.Executions
		for _, vi := range res.Violations {
			c.Report(fmt.Sprintf("concurrent:%s:%s:%s", v.name, vi.Sig, vi.Scenario), fmt.Sprintf("[two goroutines on one %s mock, preemption bound 1] %s\n schedule: %s", v.name, vi.What, strings.Join(vi.Steps, " ")),
				map[string]any{"variant": v.name, "threads": vi.Threads, "choices": vi.Choices, "what": vi.What})
		}
	}
	return execs
}
