package checks

import (
	"fmt"
	"strings"
)

// Method corpus shared by the behavioural checks C03 (testify) and C04
// (matryer): a scratch package p with small interfaces whose methods vary
// arity, result count, error position, variadic element type and parameter
// names (dev <= 1 from the baseline `M(a int) int`, plus the small products
// that the templates branch on).

type corpParam struct {
	Name string `json:"name"`
	Type string `json:"type"`
}

type corpMethod struct {
	Name     string      `json:"name"`
	Params   []corpParam `json:"params"`
	Results  []string    `json:"results"`
	Variadic bool        `json:"variadic"`
}

type corpIface struct {
	Name    string       `json:"name"`
	Methods []corpMethod `json:"methods"`
}

const corpusPrelude = `package p

import (
	"context"
	"io"
	"unsafe"
)

var _ unsafe.Pointer

type LT struct{ N int }

type LI interface{ Foo() int }

type E struct{ S string }

func (e *E) Error() string { return e.S }

type Named int

type NamedSlice []int

type NamedFunc func(int) int

var _ context.Context
var _ io.Reader
`

type corpType struct{ tag, typ string }

var corpTypes = []corpType{
	{"int", "int"}, {"string", "string"}, {"bool", "bool"}, {"error", "error"}, {"ints", "[]int"}, {"map", "map[string]int"},
	{"ptr", "*LT"}, {"reader", "io.Reader"}, {"any", "any"}, {"func", "func()"}, {"struct", "LT"}, {"chan", "chan int"},
	{"array", "[2]int"}, {"ctx", "context.Context"}, {"li", "LI"}, {"named", "Named"}, {"nslice", "NamedSlice"}, {"nfunc", "NamedFunc"},
	{"iface", "interface{ Foo() int }"}, {"bytes", "[]byte"}, {"unsafe", "unsafe.Pointer"},
}

func (m corpMethod) decl() string {
	var ps []string
	for i, p := range m.Params {
		t := p.Type
		if m.Variadic && i == len(m.Params)-1 {
			t = "..." + t
		}
		if p.Name == "" {
			ps = append(ps, t)
		} else {
			ps = append(ps, p.Name+" "+t)
		}
	}
	res := strings.Join(m.Results, ", ")
	if len(m.Results) > 1 {
		res = "(" + res + ")"
	}
	return fmt.Sprintf("%s(%s) %s", m.Name, strings.Join(ps, ", "), res)
}

// corpus builds the interface list. names: parameter identifiers that the
// template under test uses as locals (each is tried as a parameter name).
func corpus(hostileNames []string, full bool) []corpIface {
	var methods []corpMethod
	add := func(name string, variadic bool, results []string, params ...corpParam) {
		methods = append(methods, corpMethod{Name: name, Params: params, Results: results, Variadic: variadic})
	}
	p := func(n, t string) corpParam { return corpParam{n, t} }
	// baseline and arity
	add("Base", false, []string{"int"}, p("a", "int"))
	add("NoArgsNoRes", false, nil)
	add("NoArgs", false, []string{"int"})
	add("NoRes", false, nil, p("a", "int"))
	add("Two", false, []string{"string"}, p("a", "int"), p("b", "string"))
	add("Three", false, []string{"bool"}, p("a", "string"), p("b", "int"), p("c", "bool"))
	// every type alone as parameter, as result
	for _, t := range corpTypes {
		add("P_"+t.tag, false, []string{"int"}, p("a", t.typ))
		add("R_"+t.tag, false, []string{t.typ}, p("a", "int"))
	}
	// result counts and error positions
	add("Res2", false, []string{"int", "error"}, p("a", "int"))
	add("Res2ErrFirst", false, []string{"error", "int"}, p("a", "int"))
	add("Res3", false, []string{"int", "string", "error"}, p("a", "int"), p("b", "string"))
	add("Res3ErrMid", false, []string{"*LT", "error", "io.Reader"}, p("a", "int"))
	add("ResErrErr", false, []string{"error", "error"})
	add("ResNillables", false, []string{"[]int", "map[string]int", "func()"}, p("a", "any"))
	add("ResNoArgs2", false, []string{"string", "error"})
	// variadic: element type x leading params x results
	for _, t := range corpTypes {
		if !full && !strings.Contains("int string any ptr reader func ints error", t.tag) {
			continue
		}
		add("V_"+t.tag, true, nil, p("v", t.typ))
		add("V1_"+t.tag, true, []string{"int"}, p("a", "int"), p("v", t.typ))
		add("V2_"+t.tag, true, []string{"int", "error"}, p("a", "string"), p("b", "int"), p("v", t.typ))
	}
	add("VRes3", true, []string{"string", "int", "error"}, p("a", "int"), p("v", "string"))
	add("VOnlyErr", true, []string{"error"}, p("v", "any"))
	// fixed parameters of nillable types in front of a variadic tail (a nil there must reach callbacks as nil)
	add("VLeadIface", true, []string{"int"}, p("c", "io.Reader"), p("e", "error"), p("v", "string"))
	add("VLeadNillables", true, nil, p("x", "any"), p("m", "map[string]int"), p("f", "func()"), p("q", "*LT"), p("v", "int"))
	// unnamed and blank parameters
	add("Unnamed", false, []string{"int"}, p("", "int"), p("", "string"))
	add("Blank", false, []string{"int"}, p("_", "int"), p("_", "string"))
	add("UnnamedVar", true, []string{"int"}, p("", "int"), p("", "string"))
	// group into interfaces of 3 methods
	var out []corpIface
	for i := 0; i < len(methods); i += 3 {
		j := i + 3
		if j > len(methods) {
			j = len(methods)
		}
		out = append(out, corpIface{Name: fmt.Sprintf("I%03d", i/3), Methods: methods[i:j]})
	}
	// hostile parameter names, with a type that differs from what the template's own local would hold;
	// one interface per method, so that a mock that does not compile hides nothing else
	methods = nil
	for i, n := range hostileNames {
		safe := strings.NewReplacer("_", "u").Replace(n)
		add(fmt.Sprintf("N%d_%s", i, safe), false, []string{"int", "error"}, p(n, "string"), p("z", "int"))
		add(fmt.Sprintf("NB%d_%s", i, safe), false, []string{"bool", "error"}, p(n, "bool"))
		first := "a"
		if n == "a" {
			first = "q"
		}
		add(fmt.Sprintf("NV%d_%s", i, safe), true, []string{"int", "error"}, p(first, "int"), p(n, "string"))
	}
	for i := range methods {
		out = append(out, corpIface{Name: fmt.Sprintf("I%03d", 500+i), Methods: methods[i : i+1]})
	}
	return out
}

func corpusSource(ifaces []corpIface) string {
	var b strings.Builder
	b.WriteString(corpusPrelude)
	for _, it := range ifaces {
		fmt.Fprintf(&b, "\ntype %s interface {\n", it.Name)
		for _, m := range it.Methods {
			fmt.Fprintf(&b, "\t%s\n", m.decl())
		}
		b.WriteString("}\n")
	}
	return b.String()
}
