package checks

import (
	"fmt"
	"regexp"
	"strings"
	"sync"

	"verif/engine/core"
	"verif/engine/gocheck"
	"verif/engine/shapes"
)

func init() { Registry["C02"] = C02 }

// c01KnownCases returns "<case id>|<template>" for inputs whose generated file
// is known not to compile (C01's subject): C02 cannot decide them.
func c01KnownCases() map[string]bool {
	out := map[string]bool{}
	for _, k := range core.KnownKeysOf("C01") {
		p := strings.SplitN(k, "|", 3)
		if len(p) >= 2 {
			out[p[0]+"|"+p[1]] = true
		}
	}
	return out
}

// function-local and literal-local types that shadow package-level interfaces
func c02LocalFile(names []string) string {
	var b strings.Builder
	b.WriteString("package src\n\n")
	fmt.Fprintf(&b, "func localHelper() {\n\ttype %s interface{ OtherLocal(int) string }\n\tvar _ %s\n\t_ = func() {\n\t\ttype %s interface{ Inner() }\n\t\tvar _ %s\n\t}\n}\n\n", names[0], names[0], names[1], names[1])
	fmt.Fprintf(&b, "var pkgLevelLit = func() {\n\ttype %s interface{ InLit() }\n\tvar _ %s\n}\n\n", names[2], names[2])
	fmt.Fprintf(&b, "var _ = struct{ f func() }{f: func() {\n\ttype %s interface{ Deep() }\n\tvar _ %s\n}}\n\n", names[3], names[3])
	fmt.Fprintf(&b, "func (LT) method() {\n\ttype %s interface{ InMethod() }\n\tvar _ %s\n}\n", names[4], names[4])
	return b.String()
}

func c02Assertions(g genCombo, cases []shapes.Case) (string, map[int]string) {
	var b strings.Builder
	lineCase := map[int]string{}
	pkg, q := "src", ""
	switch g.placement {
	case "exttest":
		pkg, q = "src_test", "src."
	case "separate":
		pkg, q = "mocks", "src."
	case "separate-samename":
		pkg, q = "src", "src."
	}
	fmt.Fprintf(&b, "package %s\n\nimport (\n\t\"io\"\n\t\"strings\"\n\t\"time\"\n\n\t\"example.com/m/dep\"\n", pkg)
	if q != "" {
		if g.placement == "separate-samename" {
			b.WriteString("\tsrc \"example.com/m/src\"\n")
		} else {
			b.WriteString("\t\"example.com/m/src\"\n")
		}
	}
	b.WriteString(")\n\nvar (\n\t_ io.Reader\n\t_ *strings.Reader\n\t_ time.Duration\n\t_ dep.T\n)\n\n")
	line := strings.Count(b.String(), "\n") + 1
	for _, cs := range cases {
		emit := func(targs string) {
			fmt.Fprintf(&b, "var _ %s%s%s = (*Mock%s%s)(nil)\n", q, cs.Name, targs, cs.Name, targs)
			lineCase[line] = cs.Name
			line++
		}
		if cs.TypeParams == 0 {
			emit("")
			continue
		}
		for _, ta := range cs.TArgs {
			var xs []string
			for _, a := range ta {
				if q == "" {
					a = strings.ReplaceAll(a, "src.", "")
				}
				xs = append(xs, a)
			}
			emit("[" + strings.Join(xs, ", ") + "]")
		}
	}
	return b.String(), lineCase
}

func (g genCombo) assertFile() string {
	switch g.placement {
	case "inpkg-test":
		return "src/zz_assert_test.go"
	case "inpkg":
		return "src/zz_assert.go"
	case "exttest":
		return "src/zz_assert_ext_test.go"
	case "separate-samename":
		return "mocks/src/zz_assert.go"
	}
	return "mocks/zz_assert.go"
}

func C02(c *core.Ctx) error {
	if err := c.BuildMockery(); err != nil {
		return err
	}
	quick := core.Quick(c.Tier)
	depth := 1
	if !quick {
		depth = 2
	}
	all := shapes.Corpus(shapes.Options{Depth: depth, Names: false, Forms: true, NamePairs: true})
	skip := c01KnownCases()
	var combos []genCombo
	for _, t := range []string{"testify", "matryer"} {
		for _, p := range []string{"inpkg-test", "inpkg", "exttest", "separate", "separate-samename"} {
			combos = append(combos, genCombo{template: t, data: core.M{}, formatter: "gofmt", placement: p})
		}
	}
	// replace-type towards an ALIAS of the original type (identical types): whatever the setting does internally, the
	// mock still has to implement the interface, parameter for parameter
	aliasRT := core.M{"replace-type": core.M{core.ModPath + "/dep3": core.M{"T": core.M{"pkg-path": core.ModPath + "/dep3alias", "type-name": "T"}}}}
	aliasFiles := map[string]string{"dep3alias/a.go": "package dep3alias\n\nimport dep \"example.com/m/dep3\"\n\n// T is dep3's T under another name\ntype T = dep.T\n"}
	for _, t := range []string{"testify", "matryer"} {
		for _, p := range []string{"inpkg-test", "separate"} {
			combos = append(combos, genCombo{template: t, data: core.M{}, dataName: "replace-type dep3.T by its alias", formatter: "gofmt", placement: p, extraCfg: aliasRT})
		}
	}
	if !quick {
		combos = append(combos, genCombo{template: "testify", data: core.M{"unroll-variadic": true}, dataName: "unroll-variadic=true", formatter: "goimports", placement: "inpkg-test"},
			genCombo{template: "matryer", data: core.M{"skip-ensure": true, "stub-impl": true, "with-resets": true}, dataName: "skip-ensure+stub-impl+with-resets", formatter: "noop", placement: "separate"})
	}
	var mu sync.Mutex
	decided, assertions, undecided := 0, 0, 0
	// the corpus is cut into chunks of at most 350 interfaces (one generated file each): smaller files, more parallelism
	const chunkSize = 350
	nChunks := (len(all) + chunkSize - 1) / chunkSize
	core.ParallelFor(len(combos)*nChunks, func(j int) {
		i, ch := j/nChunks, j%nChunks
		g := combos[i]
		var cases []shapes.Case
		for k, cs := range all {
			if k/chunkSize != ch || (cs.InPkgOnly && !g.inPackage()) || skip[cs.ID+"|"+g.template] {
				continue
			}
			cases = append(cases, cs)
		}
		if len(cases) < 5 {
			return
		}
		byName := map[string]shapes.Case{}
		for _, cs := range cases {
			byName[cs.Name] = cs
		}
		local := c02LocalFile([]string{cases[0].Name, cases[1].Name, cases[2].Name, cases[3].Name, cases[4].Name})
		extraFiles := map[string]string{"src/zz_local.go": local}
		if g.extraCfg != nil {
			for k, v := range aliasFiles {
				extraFiles[k] = v
			}
		}
		o, m, err := genRun(c, g, cases, "", extraFiles, true)
		if err == errResources {
			c.Skip("%s: %v", g, err)
			return
		}
		if err != nil {
			c.Harness("%s: %v", g, err)
			return
		}
		defer m.Remove()
		replayBase := map[string]any{"combo": g.String(), "config": core.YAML(g.config([]string{"<case>"}))}
		if o.panicked || o.exit != 0 {
			c.Report(fmt.Sprintf("generate|%s|%s", g.template, gocheck.Signature(lastErrLine(o.stderr))),
				fmt.Sprintf("[%s] mockery failed on the interface corpus (exit %d): %s", g, o.exit, firstN(o.stderr, 600)), replayBase)
			return
		}
		// exactly one mock type per interface
		for _, cs := range cases {
			n := len(regexp.MustCompile(`(?m)^type Mock`+cs.Name+`\b`).FindAllString(o.text, -1))
			if n != 1 {
				c.Report(fmt.Sprintf("decl-count|%s|%s|%d", cs.ID, g.template, n), fmt.Sprintf("[%s] interface %q: %d declarations of its mock type in the output file (want exactly 1)\n%s", g, cs.ID, n, cs.Decl),
					map[string]any{"combo": g.String(), "case": cs.ID, "decl": cs.Decl, "local_types_file": local})
			}
		}
		src, lineCase := c02Assertions(g, cases)
		core.WriteTree(m.Dir, map[string]string{g.assertFile(): src})
		_, errs, lerr := gocheck.Load(m.Dir, core.UserEnv(), "", true, "./src/...", "./mocks/...")
		if lerr != nil {
			c.Harness("%s: %v", g, lerr)
			return
		}
		bad := map[string]bool{}
		other := 0
		// errors inside the generated file: a mock that does not compile does not implement anything. The corpus
		// excludes the inputs known not to compile (C01), so these are reported here, attributed by position.
		{
			o2 := *o
			o2.errs = nil
			for _, e := range errs {
				if e.File != g.assertFile() {
					o2.errs = append(o2.errs, e)
				}
			}
			by, rest := attribute(&o2, g.outFile())
			for n, e := range by {
				if cs, ok := byName[n]; ok && !bad[n] {
					bad[n] = true
					c.Report(fmt.Sprintf("not-compilable|%s|%s|%s", cs.ID, g.template, gocheck.Signature(e.Msg)),
						fmt.Sprintf("[%s] interface %q: the generated mock does not compile, so it cannot implement the source interface: %s\n%s", g, cs.ID, firstN(e.Msg, 300), cs.Decl),
						map[string]any{"combo": g.String(), "case": cs.ID, "decl": cs.Decl, "error": e.String()})
				}
			}
			for _, e := range rest {
				c.Report(fmt.Sprintf("not-compilable|file|%s|%s", g.template, gocheck.Signature(e.Msg)),
					fmt.Sprintf("[%s] the generated file does not compile (not attributable to one interface): %s", g, e), map[string]any{"combo": g.String(), "error": e.String()})
			}
		}
		for _, e := range errs {
			if e.File == g.assertFile() {
				if n, ok := lineCase[e.Line]; ok && !bad[n] {
					bad[n] = true
					cs := byName[n]
					c.Report(fmt.Sprintf("not-assignable|%s|%s|%s", cs.ID, g.template, gocheck.Signature(e.Msg)),
						fmt.Sprintf("[%s] interface %q: the generated mock does not implement the source interface: %s\n%s", g, cs.ID, firstN(e.Msg, 400), cs.Decl),
						map[string]any{"combo": g.String(), "case": cs.ID, "decl": cs.Decl, "assertion": strings.Split(src, "\n")[e.Line-1]})
				}
				continue
			}
			other++
		}
		mu.Lock()
		if other > 0 {
			// the generated file itself does not compile: C01's subject; assertions in a broken package are not trusted
			undecided += len(cases)
			c.Ev.Set("undecided_"+g.String(), fmt.Sprintf("%d errors outside the assertion file, first: %s", other, firstNonAssert(errs, g.assertFile())))
		} else {
			decided += len(cases)
			assertions += len(lineCase)
		}
		mu.Unlock()
		if j%5 == 0 {
			c.Ev.Sample(map[string]any{"combo": g.String(), "interfaces": len(cases), "assertions": len(lineCase), "first_assertions": strings.Split(src, "\n")[len(strings.Split(src, "\n"))-4:]})
		}
	})
	c.Ev.Set("states", decided)
	c.Ev.Set("evaluations", assertions)
	c.Ev.Set("traces_validated_against_impl", assertions)
	c.Ev.Set("distinct_nontrivial", len(all))
	c.Ev.Set("undecided_because_output_does_not_compile", undecided)
	c.Ev.Set("combos", len(combos))
	c.Ev.Set("exhaustive", undecided == 0)
	c.Ev.Set("rule", "corpus of C01 without the identifier cases (type shapes to the stated depth in all positions, signature forms, interface forms with embedding to depth 3 through local/foreign/stdlib/instantiated-generic interfaces, every constraint kind) plus a source file with function-local, literal-local and method-local types that shadow package-level interfaces; per template x placement: one mockery run, then an assertion file `var _ src.I[targs] = (*MockI[targs])(nil)` for every interface and every admissible type-argument tuple of its pool is type-checked by go/types in the destination package, and the output must contain exactly one `type MockI` declaration per interface; states = (combination, interface) pairs decided")
	c.Ev.Assume("inputs whose generated file is known not to compile (known findings of C01) are left out: assignability cannot be decided for them")
	return nil
}

func firstNonAssert(errs []gocheck.Err, af string) string {
	for _, e := range errs {
		if e.File != af {
			return e.String()
		}
	}
	return ""
}
