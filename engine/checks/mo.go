package checks

import (
	"fmt"
	"os"
	"path/filepath"
	"sync"
	"time"

	"verif/engine/core"
	"verif/engine/maporder"
)

// buildMO builds a second mockery binary from a second scratch copy of the
// tree in which every range over a map is explorer-controlled (engine E5).
func buildMO(c *core.Ctx) (bin string, sites []string, err error) {
	dst := filepath.Join(c.Scratch, "repo-mo")
	r := core.Run("/", os.Environ(), 2*time.Minute, "", "rsync", "-a", "--exclude", ".git", core.RepoSrc()+"/", dst+"/")
	if r.Exit != 0 {
		return "", nil, fmt.Errorf("rsync: %s", r.Stderr)
	}
	sites, err = maporder.Rewrite(dst, core.RepoEnv())
	if err != nil {
		return "", nil, fmt.Errorf("map-range rewrite: %w", err)
	}
	bin = filepath.Join(c.Scratch, "bin", "mockery-mo")
	os.MkdirAll(filepath.Dir(bin), 0o755)
	rb := core.Run(dst, core.RepoEnv(), 10*time.Minute, "", "go", "build", "-o", bin, ".")
	if rb.Exit != 0 {
		return "", nil, fmt.Errorf("building the instrumented tree: %s", firstN(rb.Stderr, 1500))
	}
	return bin, sites, nil
}

// moRun runs the instrumented binary with the given choices in dir.
type moObs struct {
	Res   core.Result
	Trace []maporder.TracePoint
}

var moSeq struct {
	sync.Mutex
	n int
}

func moRun(c *core.Ctx, bin, dir string, choices []int, extraEnv []string, args ...string) moObs {
	moSeq.Lock()
	moSeq.n++
	tf := filepath.Join(c.Scratch, fmt.Sprintf("trace-%d", moSeq.n))
	moSeq.Unlock()
	env := append([]string{"VERIF_MO_CHOICES=" + maporder.ChoicesString(choices), "VERIF_MO_TRACE=" + tf}, extraEnv...)
	r := core.Run(dir, core.UserEnv(env...), 600*time.Second, "", bin, args...)
	tr := maporder.ReadTrace(tf)
	os.Remove(tf)
	return moObs{r, tr}
}

func readFileString(p string) (string, error) {
	b, err := os.ReadFile(p)
	return string(b), err
}
