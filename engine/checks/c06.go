package checks

import (
	"fmt"
	"os"
	"path/filepath"
	"strings"
	"sync"
	"time"

	"verif/engine/core"
	"verif/engine/maporder"
)

func init() { Registry["C06"] = C06 }

type c06scn struct {
	name  string
	files map[string]string
	cfg   core.M
	// refused: the configuration is one mockery must refuse; the refusal (exit status, nothing written) is what
	// has to be the same under every order
	refused bool
}

func goIface(pkg string, names ...string) string {
	var b strings.Builder
	fmt.Fprintf(&b, "package %s\n\n", pkg)
	for i, n := range names {
		fmt.Fprintf(&b, "type %s interface{ M%d(x int) string }\n\n", n, i)
	}
	return b.String()
}

func c06scenarios(probe string) []c06scn {
	P := func(s string) string { return core.ModPath + "/" + s }
	probeRoot := func() core.M {
		return core.M{"template": "file://" + probe, "formatter": "noop", "require-template-schema-exists": false, "force-file-write": true, "log-level": "error",
			"dir": "{{.InterfaceDir}}", "filename": "mocks_gen_test.go"}
	}
	testifyRoot := func() core.M {
		return core.M{"template": "testify", "formatter": "gofmt", "force-file-write": true, "log-level": "error", "dir": "{{.InterfaceDir}}", "filename": "mocks_gen_test.go"}
	}
	var out []c06scn
	{ // three packages, several files
		cfg := testifyRoot()
		cfg["all"] = true
		cfg["packages"] = core.M{P("a"): core.M{}, P("b"): core.M{}, P("c"): core.M{"config": core.M{"template": "matryer", "formatter": "goimports"}}}
		out = append(out, c06scn{"three packages, all, two templates", map[string]string{"a/a.go": goIface("a", "A1", "A2"), "b/b.go": goIface("b", "B1", "B2", "B3"), "c/c.go": goIface("c", "C1")}, cfg, false})
	}
	{ // configs entries into shared and distinct files
		cfg := testifyRoot()
		cfg["packages"] = core.M{P("a"): core.M{"interfaces": core.M{
			"A1": core.M{"configs": []any{core.M{"structname": "M1", "filename": "shared_test.go"}, core.M{"structname": "M2", "filename": "own_test.go"}}},
			"A2": core.M{"configs": []any{core.M{"structname": "M3", "filename": "shared_test.go"}, core.M{"structname": "M4", "filename": "shared_test.go"}}},
			"A3": core.M{},
		}}}
		out = append(out, c06scn{"two configs per interface into shared and own files", map[string]string{"a/a.go": goIface("a", "A1", "A2", "A3")}, cfg, false})
	}
	tree := map[string]string{
		"p/p.go": goIface("p", "PI"), "p/q/q.go": goIface("q", "QI"), "p/q/r/r.go": goIface("r", "RI"), "p/s/s.go": goIface("s", "SI"),
		"p/q/skipme/x.go": goIface("skipme", "XI"), "p/skipme/y.go": goIface("skipme", "YI"), "p/docs/readme.txt": "no go files\n",
	}
	{ // nested recursive packages
		cfg := probeRoot()
		cfg["packages"] = core.M{
			P("p"):   core.M{"config": core.M{"recursive": true, "all": true, "structname": "P_{{.InterfaceName}}"}},
			P("p/q"): core.M{"config": core.M{"recursive": true, "all": true, "structname": "Q_{{.InterfaceName}}"}},
		}
		out = append(out, c06scn{"nested recursive packages", tree, cfg, false})
	}
	{ // overlapping recursive roots with exclusion
		cfg := probeRoot()
		cfg["packages"] = core.M{
			P("p"):     core.M{"config": core.M{"recursive": true, "all": true, "structname": "P_{{.InterfaceName}}", "exclude-subpkg-regex": []any{"skipme"}}},
			P("p/q"):   core.M{"config": core.M{"recursive": true, "all": true, "structname": "Q_{{.InterfaceName}}"}},
			P("p/q/r"): core.M{"config": core.M{"all": true, "structname": "R_{{.InterfaceName}}"}},
		}
		out = append(out, c06scn{"overlapping recursive roots, exclusion, pre-configured leaf", tree, cfg, false})
	}
	{ // recursive at root level + pre-configured descendant with listed interface
		cfg := probeRoot()
		cfg["recursive"] = true
		cfg["all"] = true
		cfg["packages"] = core.M{
			P("p"):   core.M{"config": core.M{"structname": "P_{{.InterfaceName}}"}},
			P("p/q"): core.M{"config": core.M{"all": false}, "interfaces": core.M{"QI": core.M{"config": core.M{"structname": "Listed_{{.InterfaceName}}"}}}},
		}
		out = append(out, c06scn{"root-level recursive, pre-configured descendant", tree, cfg, false})
	}
	{ // shared nested template-data with overrides at several levels, plus a recursive merge
		cfg := probeRoot()
		cfg["template-data"] = core.M{"k": "root", "nest": core.M{"x": "rx", "y": "ry"}}
		cfg["packages"] = core.M{
			P("a"): core.M{"config": core.M{"template-data": core.M{"nest": core.M{"x": "ax"}, "only-a": true}},
				"interfaces": core.M{"A1": core.M{"config": core.M{"template-data": core.M{"nest": core.M{"z": "iz"}}}}, "A2": core.M{"configs": []any{core.M{"template-data": core.M{"k": "cfg0"}, "structname": "C0"}, core.M{"structname": "C1"}}}}},
			P("b"): core.M{"config": core.M{"all": true}},
			P("p"): core.M{"config": core.M{"recursive": true, "all": true, "template-data": core.M{"nest": core.M{"y": "py"}, "owner": "p"}}},
			P("p/q"): core.M{"config": core.M{"all": true}},
		}
		files := map[string]string{"a/a.go": goIface("a", "A1", "A2"), "b/b.go": goIface("b", "B1")}
		for k, v := range tree {
			files[k] = v
		}
		out = append(out, c06scn{"nested template-data at four levels and through recursion", files, cfg, false})
	}
	{ // mocks written below a recursive root as a regular package
		cfg := testifyRoot()
		cfg["packages"] = core.M{P("p"): core.M{"config": core.M{"recursive": true, "all": true, "dir": "{{.InterfaceDir}}/mocks", "pkgname": "mocks", "filename": "mocks.go"}}}
		out = append(out, c06scn{"mock packages below a recursive root (all: true)", map[string]string{"p/p.go": goIface("p", "PI"), "p/q/q.go": goIface("q", "QI", "QJ")}, cfg, false})
	}
	{ // several imports with the same package name
		cfg := testifyRoot()
		cfg["all"] = true
		cfg["formatter"] = "noop" // gofmt/goimports would re-sort the import block and hide an order dependence
		cfg["packages"] = core.M{P("use"): core.M{}}
		files := map[string]string{
			"x/v1/t.go": "package v1\n\ntype T struct{}\n", "y/v1/t.go": "package v1\n\ntype T struct{}\n", "z/v1/t.go": "package v1\n\ntype T struct{}\n",
			"use/use.go": "package use\n\nimport (\n\tx \"example.com/m/x/v1\"\n\ty \"example.com/m/y/v1\"\n\tz \"example.com/m/z/v1\"\n)\n\ntype U1 interface {\n\tA(a z.T, b x.T) y.T\n\tB(m map[x.T]z.T) []y.T\n}\n\ntype U2 interface{ C(y.T) (x.T, z.T) }\n",
		}
		out = append(out, c06scn{"three imports sharing a package name", files, cfg, false})
	}
	{ // templated parameters that refer to each other through StructName and functions: the fix-point loop
		// visits them in map order
		cfg := probeRoot()
		cfg["all"] = true
		cfg["filename"] = "{{.StructName | firstLower}}_{{.InterfaceName | lower}}_gen_test.go"
		cfg["dir"] = "{{.InterfaceDir}}/{{.StructName | trimPrefix \"Mock\"}}"
		cfg["pkgname"] = "litpkg" // an unchanged literal among values that still change
		cfg["packages"] = core.M{P("a"): core.M{}, P("b"): core.M{"config": core.M{"structname": "{{.Mock}}{{.InterfaceName}}X"}, "interfaces": core.M{"B1": core.M{"config": core.M{"structname": "Lit"}}}}}
		out = append(out, c06scn{"templated values referring to each other", map[string]string{"a/a.go": goIface("a", "A1", "aLow"), "b/b.go": goIface("b", "B1", "B2")}, cfg, false})
	}
	{ // recursive siblings whose paths sort around '/'
		cfg := probeRoot()
		cfg["packages"] = core.M{
			P("svc"):       core.M{"config": core.M{"recursive": true, "all": true, "structname": "Svc_{{.InterfaceName}}"}},
			P("svc/store"): core.M{"config": core.M{"recursive": true, "all": true, "structname": "Store_{{.InterfaceName}}"}},
			P("svc-api"):   core.M{"config": core.M{"recursive": true, "all": true, "structname": "Api_{{.InterfaceName}}"}},
			P("svc.d"):     core.M{"config": core.M{"recursive": true, "all": true, "structname": "D_{{.InterfaceName}}"}},
		}
		files := map[string]string{"svc/s.go": goIface("svc", "S"), "svc/store/s.go": goIface("store", "St"), "svc/store/cache/c.go": goIface("cache", "Ca"), "svc-api/a.go": goIface("api", "Ap"), "svc-api/v2/a.go": goIface("v2", "Ap2"),
			"svc.d/d.go": goIface("d", "D"), "svc.d/e/e.go": goIface("e", "E")}
		out = append(out, c06scn{"recursive packages whose paths sort around the separator", files, cfg, false})
	}
	{ // packages sharing one custom template and schema, with per-package validation settings: what is decided for
		// one output file (validate or not, which schema) must not depend on which file was produced first
		cfg := probeRoot()
		strict := "file://" + filepath.Join(filepath.Dir(probe), "strict.templ")
		cfg["template"] = strict
		delete(cfg, "require-template-schema-exists")
		cfg["all"] = true
		cfg["packages"] = core.M{
			P("a"): core.M{"config": core.M{"require-template-schema-exists": false, "template-data": core.M{"not-in-schema": 1}}},
			P("b"): core.M{"config": core.M{"template-data": core.M{"ok": true}}},
			P("c"): core.M{"config": core.M{"require-template-schema-exists": false, "template-data": core.M{"also-not-in-schema": "x"}}},
			P("d"): core.M{"config": core.M{"require-template-schema-exists": true}},
		}
		out = append(out, c06scn{"shared custom template and schema, validation switched off for some packages", map[string]string{"a/a.go": goIface("a", "A1"), "b/b.go": goIface("b", "B1", "B2"), "c/c.go": goIface("c", "C1"), "d/d.go": goIface("d", "D1")}, cfg, false})
	}
	{ // in-package mocks in a NON-test file: on the second run mockery's own previous output is part of the source
		// package it loads; parameters named like the declarations it generates must come out the same both times
		cfg := testifyRoot()
		cfg["all"] = true
		cfg["filename"] = "mocks.go"
		cfg["pkgname"] = "{{.SrcPackageName}}"
		cfg["packages"] = core.M{P("svc"): core.M{}, P("svc2"): core.M{"config": core.M{"template": "matryer", "template-data": core.M{"skip-ensure": true, "with-resets": true}}}}
		src := func(pkg string) string {
			return "package " + pkg + "\n\ntype Store interface {\n\tGet(MockStore int, NewMockStore string, MockStore_Expecter bool) (MockStore_Get_Call error)\n\tPut(mockConstructorTestingTNewMockStore int, StoreMock string)\n}\n\ntype Other interface{ Do(MockOther, NewMockOther int) }\n"
		}
		out = append(out, c06scn{"in-package mocks in a non-test file, parameters named like the generated declarations", map[string]string{"svc/s.go": src("svc"), "svc2/s.go": src("svc2")}, cfg, false})
	}
	{ // one output file per interface: whatever state is kept between files (import registries, qualifiers,
		// reserved names) must not leak from the files rendered earlier, in whatever order they are visited
		cfg := testifyRoot()
		cfg["all"] = true
		cfg["formatter"] = "noop"
		cfg["filename"] = "mock_{{.InterfaceName}}_test.go"
		cfg["packages"] = core.M{P("use"): core.M{}, P("use2"): core.M{"config": core.M{"template": "matryer"}}}
		src := func(pkg string) string {
			return "package " + pkg + "\n\nimport (\n\t\"net/url\"\n\n\tx \"example.com/m/x/v1\"\n\ty \"example.com/m/y/v1\"\n)\n\n" +
				"type Fetcher interface{ Fetch(u *url.URL) error }\n\ntype Getter interface{ Get(url string, v1 int) string }\n\n" +
				"type UsesX interface{ A(a x.T) x.T }\n\ntype UsesY interface{ B(b y.T) y.T }\n\ntype Plain interface{ C(v10 int, url0 string) (url1 error) }\n"
		}
		files := map[string]string{"x/v1/t.go": "package v1\n\ntype T struct{}\n", "y/v1/t.go": "package v1\n\ntype T struct{}\n", "use/use.go": src("use"), "use2/use.go": src("use2")}
		out = append(out, c06scn{"one file per interface, imports and parameter names that collide across files", files, cfg, false})
	}
	{ // ONE type expression that mentions several packages of the same name, none of them imported earlier in the
		// file (one output file per interface): which package keeps the plain name and which gets the numbered alias
		// follows the order of appearance in the type, run after run
		cfg := testifyRoot()
		cfg["all"] = true
		cfg["formatter"] = "noop"
		cfg["filename"] = "mock_{{.InterfaceName}}_test.go"
		cfg["packages"] = core.M{P("use"): core.M{}, P("use2"): core.M{"config": core.M{"template": "matryer"}}}
		src := func(pkg string) string {
			return "package " + pkg + "\n\nimport (\n\tx \"example.com/m/x/v1\"\n\ty \"example.com/m/y/v1\"\n\tz \"example.com/m/z/v1\"\n)\n\n" +
				"type MapKV interface{ B(m map[z.T]x.T) }\n\ntype FuncSig interface{ C(f func(y.T, z.T) (x.T, error)) }\n\ntype Nested interface{ D() map[y.T][]func(x.T) z.T }\n\ntype StructF interface{ E(s struct{ A z.T; B y.T; C x.T }) }\n"
		}
		files := map[string]string{"x/v1/t.go": "package v1\n\ntype T struct{}\n", "y/v1/t.go": "package v1\n\ntype T struct{}\n", "z/v1/t.go": "package v1\n\ntype T struct{}\n", "use/use.go": src("use"), "use2/use.go": src("use2")}
		out = append(out, c06scn{"one type expression mentioning three same-named packages, one file per interface", files, cfg, false})
	}
	{ // several source packages OF THE SAME NAME (different import paths) resolving to one output file: refused, under
		// every order, with nothing written
		cfg := testifyRoot()
		cfg["all"] = true
		cfg["dir"], cfg["pkgname"], cfg["filename"] = "mocks", "mocks", "mock_{{.InterfaceName}}.go"
		pkgs := core.M{}
		files := map[string]string{}
		for k := 1; k <= 5; k++ {
			pn := fmt.Sprintf("store/v%d", k)
			pkgs[P(pn)] = core.M{}
			files[pn+"/s.go"] = fmt.Sprintf("package store\n\ntype Store interface{ Get%d(k string) int }\n", k)
		}
		cfg["packages"] = pkgs
		out = append(out, c06scn{name: "five same-named source packages resolving to one output file (must be refused)", files: files, cfg: cfg, refused: true})
	}
	{ // ONE output file reached through different spellings of its path (relative, through {{.ConfigDir}}, with a
		// detour): it is one file, holding all its mocks, whatever order the entries are visited in
		cfg := testifyRoot()
		cfg["filename"], cfg["pkgname"], cfg["formatter"] = "mocks.go", "mocks", "noop"
		cfg["packages"] = core.M{P("a"): core.M{"interfaces": core.M{
			"A1": core.M{"config": core.M{"dir": "mocks"}},
			"A2": core.M{"config": core.M{"dir": "{{.ConfigDir}}/mocks"}},
			"A3": core.M{"config": core.M{"dir": "{{.InterfaceDir}}/../mocks"}},
			"A4": core.M{"config": core.M{"dir": "./a/../mocks/."}},
		}}}
		out = append(out, c06scn{"one output file named through four spellings of its path", map[string]string{"a/a.go": goIface("a", "A1", "A2", "A3", "A4")}, cfg, false})
	}
	{ // many interfaces per source file and per output file, several packages: the order of the mocks inside a file
		// is the declaration order, whatever order the packages were loaded or visited in
		cfg := testifyRoot()
		cfg["all"] = true
		cfg["formatter"] = "noop"
		pkgs := core.M{}
		files := map[string]string{}
		for _, pn := range []string{"m1", "m2", "m3", "m4"} {
			pkgs[P(pn)] = core.M{}
			var names1, names2 []string
			for k := 0; k < 9; k++ {
				names1 = append(names1, fmt.Sprintf("%s%c", []string{"Zeta", "Alpha", "Mid"}[k%3], 'A'+k))
			}
			for k := 0; k < 6; k++ {
				names2 = append(names2, fmt.Sprintf("Second%c", 'F'-k))
			}
			files[pn+"/a.go"] = goIface(pn, names1...)
			files[pn+"/b.go"] = goIface(pn, names2...)
		}
		cfg["packages"] = pkgs
		out = append(out, c06scn{"fifteen interfaces per package in two source files, four packages", files, cfg, false})
	}
	{ // every package profile of C08's composition oracle at once: both built-in templates and a custom one, all
		// formatters, shared output package names, headers, schema settings, replace-type, recursion with exclusion
		// lists, regex selection, same-named source packages, several output files per package
		files, cfg := c08AllProfiles(filepath.Join(filepath.Dir(probe), "c08all"))
		out = append(out, c06scn{"all composition profiles in one configuration", files, cfg, false})
	}
	return out
}

func C06(c *core.Ctx) error {
	bin, sites, err := buildMO(c)
	if err != nil {
		return err
	}
	if err := c.BuildMockery(); err != nil {
		return err
	}
	quick := core.Quick(c.Tier)
	maxDev, limit := 1, 0
	if !quick {
		maxDev, limit = 2, 2500
	}
	probe := filepath.Join(c.Scratch, "probe.templ")
	core.WriteTree(c.Scratch, map[string]string{"probe.templ": core.ProbeTemplate,
		"strict.templ": core.ProbeTemplate, "strict.templ.schema.json": `{"type":"object","additionalProperties":false,"properties":{"ok":{}}}`})
	scns := c06scenarios(probe)
	var seq struct {
		sync.Mutex
		n int
	}
	newDir := func() string {
		seq.Lock()
		defer seq.Unlock()
		seq.n++
		return fmt.Sprintf("c06-%d", seq.n)
	}
	c.Ev.Set("map_range_sites", sites)
	totalRuns, devRuns, maxPoints, truncatedAny := 0, 0, 0, false
	siteSeen := map[string]bool{}
	var evmu sync.Mutex
	for si, s := range scns {
		if c.Expired() {
			truncatedAny = true
			break
		}
		files := map[string]string{".mockery.yml": core.YAML(s.cfg)}
		for k, v := range s.files {
			files[k] = v
		}
		type obs struct {
			exit int
			hash string
			snap map[string]string
			err  string
		}
		// runOn: stage = 1 runs on the clean tree, stage = 2 on a copy of baseDir (tree holding r1's outputs)
		runOn := func(choices []int, baseDir string, env ...string) (obs, []maporder.TracePoint) {
			m, err := c.NewModule(newDir(), files)
			if err != nil {
				c.Harness("%v", err)
				return obs{}, nil
			}
			defer m.Remove()
			if baseDir != "" {
				core.Run("/", os.Environ(), time.Minute, "", "rsync", "-a", "--delete", baseDir+"/", m.Dir+"/")
			}
			o := moRun(c, bin, m.Dir, choices, env)
			snap := core.Snapshot(m.Dir)
			return obs{o.Res.Exit, core.HashSnapshot(snap), snap, firstN(o.Res.Stderr, 400)}, o.Trace
		}
		// baseline r1, kept on disk for the idempotence stage
		baseM, err := c.NewModule(fmt.Sprintf("c06-base-%d", si), files)
		if err != nil {
			return err
		}
		b := moRun(c, bin, baseM.Dir, nil, nil)
		baseSnap := core.Snapshot(baseM.Dir)
		base := obs{b.Res.Exit, core.HashSnapshot(baseSnap), baseSnap, firstN(b.Res.Stderr, 400)}
		if s.refused && base.exit == 0 {
			c.Report("baseline-accepted:"+s.name, fmt.Sprintf("scenario %q: mockery accepts a configuration it must refuse (sorted order)", s.name), map[string]any{"scenario": s.name, "files": files})
			continue
		}
		if !s.refused && base.exit != 0 || b.Res.Panicked() {
			c.Report("baseline:"+s.name, fmt.Sprintf("scenario %q: mockery exit %d with the sorted order: %s", s.name, base.exit, base.err), map[string]any{"scenario": s.name, "files": files})
			continue
		}
		for _, tp := range b.Trace {
			siteSeen[tp.Site] = true
		}
		if len(b.Trace) > maxPoints {
			maxPoints = len(b.Trace)
		}
		report := func(stage string, choices []int, got obs, want obs) {
			added, removed, changed := core.DiffSnapshots(want.snap, got.snap)
			c.Report(fmt.Sprintf("%s:%s:choices=%s", stage, s.name, maporder.ChoicesString(choices)),
				fmt.Sprintf("scenario %q, %s with map-iteration choices [%s]: exit %d (sorted order: %d); files added %v removed %v changed %v; %s",
					s.name, stage, maporder.ChoicesString(choices), got.exit, want.exit, added, removed, changed, got.err),
				map[string]any{"scenario": s.name, "stage": stage, "choices": maporder.ChoicesString(choices), "files": files, "env": "VERIF_MO_CHOICES on the binary built from the map-order-instrumented copy of the tree"})
		}
		// site-uniform orders: one permutation applied to every visit of one rewritten range statement (and the
		// all-reversed order); this is the whole quick tier, the thorough tier adds the per-occurrence exploration
		maxN := map[string]int{}
		for _, tp := range b.Trace {
			if tp.N > maxN[tp.Site] {
				maxN[tp.Site] = tp.N
			}
		}
		type siteOrder struct{ env, name string }
		orders := []siteOrder{{"VERIF_MO_REVERSE=1", "every map reversed"}}
		for _, st := range core.SortedKeys(maxN) {
			for k := 1; k < maporder.Alternatives(maxN[st]); k++ {
				orders = append(orders, siteOrder{fmt.Sprintf("VERIF_MO_SITE=%s=%d", st, k), fmt.Sprintf("order %d at every visit of %s", k, st)})
			}
		}
		for _, stage := range []string{"run1-clean-tree", "run2-over-own-output"} {
			baseDir := ""
			if stage != "run1-clean-tree" {
				baseDir = baseM.Dir
			}
			core.ParallelFor(len(orders), func(oi int) {
				if c.Expired() {
					return
				}
				got, _ := runOn(nil, baseDir, orders[oi].env)
				evmu.Lock()
				c.Ev.Distinct("states", fmt.Sprintf("%d/%s/%s", si, stage, orders[oi].env))
				devRuns++
				totalRuns++
				evmu.Unlock()
				if got.exit != base.exit || got.hash != base.hash {
					added, removed, changed := core.DiffSnapshots(base.snap, got.snap)
					c.Report(fmt.Sprintf("%s:%s:%s", stage, s.name, orders[oi].env),
						fmt.Sprintf("scenario %q, %s with %s: exit %d (sorted order: %d); files added %v removed %v changed %v; %s", s.name, stage, orders[oi].name, got.exit, base.exit, added, removed, changed, got.err),
						map[string]any{"scenario": s.name, "stage": stage, "env": orders[oi].env, "files": files})
				}
			})
			if quick {
				continue
			}
			n, trunc := maporder.Explore(maxDev, func(batch [][]int) [][]maporder.TracePoint {
				traces := make([][]maporder.TracePoint, len(batch))
				core.ParallelFor(len(batch), func(i int) {
					if c.Expired() {
						return
					}
					got, tr := runOn(batch[i], baseDir)
					traces[i] = tr
					evmu.Lock()
					c.Ev.Distinct("states", fmt.Sprintf("%d/%s/%v", si, stage, batch[i]))
					nz := false
					for _, x := range batch[i] {
						if x != 0 {
							nz = true
						}
					}
					if nz {
						devRuns++
					}
					evmu.Unlock()
					if got.exit != base.exit || got.hash != base.hash {
						report(stage, batch[i], got, base)
					}
				})
				return traces
			}, limit)
			totalRuns += n
			if trunc {
				truncatedAny = true
			}
		}
		// r3 and r4 in the default order on top of r1's tree: still the same, no mocks of mocks
		for k := 0; k < 2; k++ {
			r := moRun(c, bin, baseM.Dir, nil, nil)
			totalRuns++
			snap := core.Snapshot(baseM.Dir)
			if r.Res.Exit != base.exit || core.HashSnapshot(snap) != base.hash {
				report(fmt.Sprintf("run%d-in-place", k+2), nil, obs{r.Res.Exit, "", snap, firstN(r.Res.Stderr, 300)}, base)
			}
		}
		// free-running runs of the *uninstrumented* binary (Go's own random map order, fresh process, later time):
		// must give the same tree as the instrumented binary under the sorted order. A difference is a real
		// counterexample (and would also expose an instrumentation that changed behaviour); agreement is only
		// complementary evidence, the verdict for iteration order comes from the exploration above.
		for k := 0; k < 3; k++ {
			m, err := c.NewModule(newDir(), files)
			if err != nil {
				break
			}
			r := c.RunMockery(m.Dir, nil)
			totalRuns++
			snap := core.Snapshot(m.Dir)
			if r.Exit != base.exit || core.HashSnapshot(snap) != base.hash {
				report(fmt.Sprintf("free-run-%d-uninstrumented", k), nil, obs{r.Exit, "", snap, firstN(r.Stderr, 300)}, base)
			}
			m.Remove()
		}
		for p := range baseSnap {
			if strings.HasSuffix(p, ".go") {
				if txt, ok := baseM.Read(p); ok && (strings.Contains(txt, "MockMock") || strings.Contains(txt, "Mock_Mock") || strings.Contains(txt, "MoqMoq")) {
					c.Report("mock-of-mock:"+s.name, "a mock of a mock was generated in "+p, map[string]any{"scenario": s.name})
				}
			}
		}
		if si%3 == 0 {
			c.Ev.Sample(map[string]any{"scenario": s.name, "choice_points_sorted_order": len(b.Trace), "config": core.YAML(s.cfg), "tree_hash": base.hash[:16]})
		}
		baseM.Remove()
	}
	c.Ev.Set("transitions", totalRuns)
	c.Ev.Set("evaluations", totalRuns)
	c.Ev.Set("traces_validated_against_impl", totalRuns)
	c.Ev.Set("distinct_nontrivial", devRuns)
	c.Ev.Set("scenarios", len(scns))
	c.Ev.Set("max_choice_points_per_run", maxPoints)
	c.Ev.Set("map_range_sites_reached", core.SortedKeys(siteSeen))
	c.Ev.Set("deviation_bound", maxDev)
	c.Ev.Set("exhaustive", !truncatedAny && !c.Expired())
	c.Ev.Set("rule", "every range over a map in mockery's own packages is rewritten (scratch copy) to an explorer-chosen permutation (all n! orders for n<=3 keys; identity, reverse, rotations, adjacent transpositions beyond); per scenario every site-uniform order (one permutation applied to all visits of one range statement, and all maps reversed) and, in the thorough tier, all choice lists with at most `deviation_bound` non-sorted choice points are executed on a clean tree (run 1) and on the tree that already holds run 1's output (run 2), then runs 3-4 in place; every execution must have the baseline's exit status and whole-tree content hash; distinct_nontrivial = executions with at least one non-sorted order")
	c.Ev.Assume("map iteration inside third-party libraries (koanf, mapstructure, yaml) is left free; time and process identity are not varied by this check")
	return nil
}
