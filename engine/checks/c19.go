package checks

import (
	"fmt"
	"os"
	"path/filepath"
	"reflect"
	"sort"
	"strings"
	"time"

	"gopkg.in/yaml.v3"

	"verif/engine/core"
)

func init() { Registry["C19"] = C19 }

// v2 key -> v3 place (reference mapping A7)
type c19key struct {
	v2   string
	v3   string // v3 key, or "template-data.<k>"
	vals func(level int) any
}

var c19levels = []string{"top", "pkg", "iface", "cfgs"}

func c19keys() []c19key {
	mk := func(prefix string) func(int) any {
		return func(l int) any { return prefix + "-" + c19levels[l] }
	}
	bools := func(l int) any { return l%2 == 0 }
	lv := []string{"debug", "warn", "error", "info"}
	return []c19key{
		{"all", "all", bools},
		// path-valued strings are deliberately not in "clean" form: they are values like any other and must come
		// through byte for byte (cleaning "{{.InterfaceDir}}/../mocks" before it is expanded changes its meaning)
		{"dir", "dir", func(l int) any {
			return []string{"./out/top/{{.InterfaceName}}/", "out//pkg/{{.InterfaceName}}/.", "{{.InterfaceDir}}/../mocks_iface", "out/cfgs/../cfgs/{{.InterfaceName}}"}[l]
		}},
		{"mockname", "structname", func(l int) any { return "MN_" + c19levels[l] + "_{{.InterfaceName}}" }},
		{"outpkg", "pkgname", mk("pk")},
		{"include-regex", "include-interface-regex", func(l int) any { return "^Inc" + c19levels[l] + ".*$" }},
		{"exclude-regex", "exclude-interface-regex", func(l int) any { return "Exc[" + c19levels[l] + "]+: #x" }},
		{"exclude", "exclude-subpkg-regex", func(l int) any { return []any{"ex-" + c19levels[l], "second/" + c19levels[l]} }},
		{"recursive", "recursive", func(l int) any { return l%2 == 1 }},
		{"log-level", "log-level", func(l int) any { return lv[l] }},
		{"config", "config", func(l int) any { return "./conf/../cfg-" + c19levels[l] + ".yml" }},
		{"_anchors", "_anchors", func(l int) any { return map[string]any{"anchor": "a-" + c19levels[l], "n": map[string]any{"k": l}} }},
		{"boilerplate-file", "template-data.boilerplate-file", func(l int) any { return "./bp//" + c19levels[l] + "/../bp.txt" }},
		{"mock-build-tags", "template-data.mock-build-tags", func(l int) any { return "tag_" + c19levels[l] + " && !x" }},
		{"unroll-variadic", "template-data.unroll-variadic", bools},
	}
}

// remaining v2 keys: deprecated / dropped (value, expected effect none)
var c19deprecated = map[string]any{
	"tags": "t1", "case": "snake", "cpuprofile": "p.out", "disable-config-search": true, "disable-deprecation-warnings": true,
	"disabled-deprecation-warnings": []any{"x"}, "disable-func-mocks": true, "disable-version-string": true, "dry-run": true,
	"exported": true, "fail-on-missing": true, "filename": "f.go", "inpackage": true, "inpackage-suffix": true,
	"include-auto-generated": false, "issue-845-fix": true, "keeptree": true, "name": "N", "note": "note", "output": "o",
	"packageprefix": "pp", "print": true, "profile": "pr", "quiet": true, "replace-type": []any{"a=b"}, "resolve-type-alias": true,
	"srcpkg": "s", "structname": "SN", "testonly": true, "version": true, "with-expecter": true,
}

type c19place struct {
	key   int // index in keys; -1 deprecated
	dep   string
	level int
}

type c19case struct {
	name   string
	places []c19place
	pkg    string
	iface  string
	nullBodies bool
}

func (cs c19case) id() string {
	var p []string
	for _, x := range cs.places {
		if x.key >= 0 {
			p = append(p, fmt.Sprintf("%s@%s", c19keys()[x.key].v2, c19levels[x.level]))
		} else {
			p = append(p, fmt.Sprintf("%s@%s", x.dep, c19levels[x.level]))
		}
	}
	sort.Strings(p)
	s := strings.Join(p, "+")
	if cs.pkg != "example.com/m/a" || cs.iface != "Foo" {
		s += fmt.Sprintf(" names(%q,%q)", cs.pkg, cs.iface)
	}
	if cs.nullBodies {
		s += " null-bodies"
	}
	if s == "" {
		s = "empty"
	}
	return s
}

// build v2 tree and expected v3 tree
func (cs c19case) trees() (v2 map[string]any, v3 map[string]any) {
	keys := c19keys()
	lv2 := [4]map[string]any{{}, {}, {}, {}}
	lv3 := [4]map[string]any{{}, {}, {}, {}}
	for _, p := range cs.places {
		if p.key < 0 {
			lv2[p.level][p.dep] = c19deprecated[p.dep]
			continue
		}
		k := keys[p.key]
		v := k.vals(p.level)
		lv2[p.level][k.v2] = v
		if strings.HasPrefix(k.v3, "template-data.") {
			td, _ := lv3[p.level]["template-data"].(map[string]any)
			if td == nil {
				td = map[string]any{}
				lv3[p.level]["template-data"] = td
			}
			td[strings.TrimPrefix(k.v3, "template-data.")] = v
		} else {
			lv3[p.level][k.v3] = v
		}
	}
	build := func(l [4]map[string]any, v3 bool) map[string]any {
		root := map[string]any{}
		for k, v := range l[0] {
			root[k] = v
		}
		if v3 {
			root["template"] = "testify"
		}
		iface := map[string]any{}
		if len(l[2]) > 0 {
			iface["config"] = l[2]
		}
		if len(l[3]) > 0 {
			// two configs entries: the marked one and an empty sibling
			iface["configs"] = []any{l[3], map[string]any{}}
		}
		pkg := map[string]any{}
		if len(l[1]) > 0 {
			pkg["config"] = l[1]
		}
		if cs.nullBodies {
			pkg["interfaces"] = map[string]any{cs.iface: nil, "Sibling": nil}
			root["packages"] = map[string]any{cs.pkg: pkg, "example.com/m/b": nil, "example.com/m/empty-map": map[string]any{}, "example.com/m/empty-interfaces": map[string]any{"interfaces": map[string]any{}},
				"example.com/m/empty-config": map[string]any{"config": map[string]any{}}}
		} else {
			pkg["interfaces"] = map[string]any{cs.iface: iface, "Sibling": map[string]any{}}
			root["packages"] = map[string]any{cs.pkg: pkg, "example.com/m/b": map[string]any{}}
		}
		return root
	}
	return build(lv2, false), build(lv3, true)
}

// normalise: drop empty maps / nils / empty lists recursively, ints as int
func c19norm(v any) any {
	switch t := v.(type) {
	case map[string]any:
		out := map[string]any{}
		for k, x := range t {
			n := c19norm(x)
			if n == nil {
				continue
			}
			out[k] = n
		}
		if len(out) == 0 {
			return nil
		}
		return out
	case []any:
		out := []any{}
		for _, x := range t {
			n := c19norm(x)
			if n != nil {
				out = append(out, n)
			}
		}
		if len(out) == 0 {
			return nil
		}
		return out
	case int64:
		return int(t)
	case uint64:
		return int(t)
	}
	return v
}

func C19(c *core.Ctx) error {
	if err := c.BuildMockery(); err != nil {
		return err
	}
	keys := c19keys()
	var cases []c19case
	base := func() c19case { return c19case{pkg: "example.com/m/a", iface: "Foo"} }
	cases = append(cases, base())
	// dev <= 1: every key at every level
	for k := range keys {
		for l := 0; l < 4; l++ {
			cs := base()
			cs.places = []c19place{{key: k, level: l}}
			cases = append(cases, cs)
		}
	}
	// each level full, everything full
	for l := 0; l < 4; l++ {
		cs := base()
		for k := range keys {
			cs.places = append(cs.places, c19place{key: k, level: l})
		}
		cases = append(cases, cs)
	}
	{
		cs := base()
		for l := 0; l < 4; l++ {
			for k := range keys {
				cs.places = append(cs.places, c19place{key: k, level: l})
			}
		}
		cases = append(cases, cs)
	}
	// deprecated keys alone at each level
	for _, d := range core.SortedKeys(c19deprecated) {
		for l := 0; l < 4; l++ {
			cs := base()
			cs.places = []c19place{{key: -1, dep: d, level: l}}
			cases = append(cases, cs)
		}
	}
	// names
	pkgNames := []string{"github.com/x/y.z", "a.b/c", "pkg:colon", "#hash", "-dash", "quo\"te", "ünï/côde", "null", "true", "123", "~", "a b", "x: y", "*star", "&anchor", "{brace}", "[b]", "'", "|", ">", "%", "@", "`", "!", "?", "a#b", "a:b", " lead", "trail ", "1.5", "0x10", "yes", "~/x", "very/long/" + strings.Repeat("p", 200)}
	for _, n := range pkgNames {
		cs := base()
		cs.pkg = n
		cs.iface = n
		if strings.Contains(n, "/") {
			cs.iface = strings.ReplaceAll(n, "/", "_")
		}
		cs.places = []c19place{{key: 1, level: 1}, {key: 2, level: 2}, {key: 11, level: 3}}
		cases = append(cases, cs)
	}
	{
		cs := base()
		cs.nullBodies = true
		cases = append(cases, cs)
		cs2 := base()
		cs2.nullBodies = true
		cs2.places = []c19place{{key: 0, level: 0}, {key: 1, level: 1}}
		cases = append(cases, cs2)
	}
	// dev <= 2: all pairs of (key, level) placements
	if !core.Quick(c.Tier) {
		type kl struct{ k, l int }
		var all []kl
		for k := range keys {
			for l := 0; l < 4; l++ {
				all = append(all, kl{k, l})
			}
		}
		for i := 0; i < len(all); i++ {
			for j := i + 1; j < len(all); j++ {
				cs := base()
				cs.places = []c19place{{key: all[i].k, level: all[i].l}, {key: all[j].k, level: all[j].l}}
				cases = append(cases, cs)
			}
		}
	} else {
		// quick: same key at two levels (inheritance is not migrate's job: both must stay)
		for k := range keys {
			for l := 0; l < 3; l++ {
				cs := base()
				cs.places = []c19place{{key: k, level: l}, {key: k, level: l + 1}}
				cases = append(cases, cs)
			}
		}
		// include/exclude pairs across levels (a lone exclude below an inherited include)
		for l1 := 0; l1 < 4; l1++ {
			for l2 := 0; l2 < 4; l2++ {
				cs := base()
				cs.places = []c19place{{key: 4, level: l1}, {key: 5, level: l2}}
				cases = append(cases, cs)
			}
		}
	}

	// deprecated key next to a mapped key at the same level, at every level (a dropped
	// key must not take a mapped neighbour with it)
	for _, d := range core.SortedKeys(c19deprecated) {
		for k := range keys {
			for l := 0; l < 4; l++ {
				cs := base()
				cs.places = []c19place{{key: -1, dep: d, level: l}, {key: k, level: l}}
				cases = append(cases, cs)
			}
		}
	}

	// scratch module so that showconfig can resolve recursive packages
	mod := filepath.Join(c.Scratch, "mod")
	core.WriteTree(mod, map[string]string{
		"go.mod":     "module example.com/m\n\ngo 1.23\n",
		"a/a.go":     "package a\n\ntype Foo interface{ M() }\ntype Sibling interface{ S() }\n",
		"a/sub/s.go": "package sub\n\ntype Sub interface{ M() }\n",
		"b/b.go":     "package b\n\ntype B interface{ M() }\n",
	})
	outcomes := map[string]struct{}{}
	type res struct{ sig string }
	results := make([]res, len(cases))
	core.ParallelFor(len(cases), func(i int) {
		if c.Expired() {
			return
		}
		cs := cases[i]
		dir := filepath.Join(c.Scratch, "w", fmt.Sprint(i))
		os.MkdirAll(dir, 0o755)
		defer os.RemoveAll(dir)
		v2, want := cs.trees()
		v2b, err := yaml.Marshal(v2)
		if err != nil {
			c.Harness("marshal: %v", err)
			return
		}
		v2path := filepath.Join(dir, "v2.yml")
		// where the v3 file goes is the user's choice and must not touch any value: beside the v2 file, in a
		// directory below it, or in a sibling directory (cycling with the case number)
		v3path := filepath.Join(dir, "v3.yml")
		switch i % 3 {
		case 1:
			v3path = filepath.Join(dir, "build", "cfg", "v3.yml")
		case 2:
			v3path = filepath.Join(dir+"-out", "v3.yml")
			defer os.RemoveAll(dir + "-out")
		}
		os.MkdirAll(filepath.Dir(v3path), 0o755)
		os.WriteFile(v2path, v2b, 0o644)
		// histories: every other case starts with an output file left by an earlier, larger migration
		// (the new output must replace it completely); the rest start without one
		if i%2 == 1 {
			os.WriteFile(v3path, []byte("template: testify\npackages:\n"+strings.Repeat("    stale/pkg/from/an/earlier/run:\n        config:\n            all: true\n            dir: stale\n", 40)), 0o644)
		}
		before := core.HashBytes(v2b)
		r := core.Run(mod, core.UserEnv(), 60*time.Second, "", c.Mockery, "migrate", "--config", v2path, "--outfile", v3path)
		c.Ev.Add("transitions", 1)
		c.Ev.Add("evaluations", 1)
		c.Ev.Distinct("states", cs.id())
		id := cs.id()
		replay := map[string]any{"case": id, "v2_yaml": string(v2b), "cmd": "mockery migrate --config v2.yml --outfile " + []string{"v3.yml", "build/cfg/v3.yml", "../<case>-out/v3.yml"}[i%3]}
		if core.ResourceFailure(r) {
			c.Skip("%s: migrate timed out or was killed", id)
			return
		}
		if r.Panicked() {
			c.Report("crash:"+id, "migrate crashed or hung on a decodable v2 file: "+firstN(r.Stderr, 600), replay)
			return
		}
		if r.Exit != 0 {
			c.Report("exit:"+id, fmt.Sprintf("migrate exit %d on a valid v2 file: %s", r.Exit, firstN(r.Stderr+r.Stdout, 600)), replay)
			return
		}
		after, _ := os.ReadFile(v2path)
		if core.HashBytes(after) != before {
			c.Report("input-modified:"+id, "migrate modified its input file", replay)
		}
		v3b, err := os.ReadFile(v3path)
		if err != nil {
			c.Report("no-output:"+id, "migrate wrote no output file", replay)
			return
		}
		replay["v3_yaml"] = string(v3b)
		var got map[string]any
		if err := yaml.Unmarshal(v3b, &got); err != nil {
			c.Report("bad-yaml:"+id, "v3 output is not valid YAML: "+err.Error(), replay)
			return
		}
		// with-expecter is carried to template-data but is outside the property's key list: don't care
		stripWithExpecter(got)
		gn, wn := c19norm(got), c19norm(want)
		if !reflect.DeepEqual(gn, wn) {
			diff := c19diff("", wn, gn)
			sig := strings.Join(diff, "; ")
			c.Report("tree:"+id, "v3 tree differs from the reference mapping: "+sig, replay)
			results[i] = res{"diff"}
			return
		}
		// package and interface NAMES are preserved exactly, also those whose bodies are empty or null (the tree
		// comparison above drops empty maps on both sides)
		names := func(t map[string]any) []string {
			var out []string
			pk, _ := t["packages"].(map[string]any)
			for p, body := range pk {
				out = append(out, "package "+p)
				if b, ok := body.(map[string]any); ok {
					ifs, _ := b["interfaces"].(map[string]any)
					for n := range ifs {
						out = append(out, "interface "+p+"."+n)
					}
				}
			}
			sort.Strings(out)
			return out
		}
		if gnm, wnm := names(got), names(want); !reflect.DeepEqual(gnm, wnm) {
			c.Report("names:"+id, fmt.Sprintf("package / interface names of the v2 file are not preserved: expected %v, v3 file has %v", wnm, gnm), replay)
			results[i] = res{"diff"}
			return
		}
		// strict loader accepts it
		r2 := core.Run(mod, core.UserEnv(), 60*time.Second, "", c.Mockery, "showconfig", "--config", v3path)
		c.Ev.Add("transitions", 1)
		if core.ResourceFailure(r2) {
			c.Skip("%s: showconfig timed out or was killed", id)
			return
		}
		if r2.Panicked() {
			c.Report("loader-crash:"+id, "showconfig crashed on migrate's output: "+firstN(r2.Stderr, 600), replay)
			return
		}
		if r2.Exit != 0 {
			c.Report("loader-reject:"+id, "mockery's loader rejects migrate's output: "+firstN(r2.Stderr+r2.Stdout, 600), replay)
			return
		}
		if len(cs.places) > 0 {
			c.Ev.Distinct("distinct_nontrivial", id)
		}
		results[i] = res{core.HashBytes(v3b)[:12]}
		if i%97 == 0 {
			c.Ev.Sample(map[string]any{"case": id, "v2": string(v2b), "v3": string(v3b)})
		}
	})
	done := 0
	for _, r := range results {
		if r.sig != "" {
			outcomes[r.sig] = struct{}{}
			done++
		}
	}
	c.Ev.Set("traces_validated_against_impl", done)
	c.Ev.Set("distinct_outcomes", len(outcomes))
	c.Ev.Set("exhaustive", !c.Expired())
	c.Ev.Set("cases", len(cases))
	bound := "dev<=1 over (14 mapped keys x 4 levels), each level full, all full, 31 deprecated keys x 4 levels, 34 package/interface name spellings, null bodies, same key at adjacent levels, include/exclude level pairs, every (deprecated key, mapped key) pair at the same level x 4 levels"
	if !core.Quick(c.Tier) {
		bound = "dev<=2: all pairs of (mapped key, level) placements (1540), plus the quick set"
	}
	c.Ev.Set("bound", bound)
	c.Ev.Set("rule", "v2 configuration trees generated from (key, level) placement sets with pairwise distinct marker values; each is run through `mockery migrate`, the output parsed and compared with the reference mapping (A7) applied to the same tree, then loaded with `mockery showconfig`; non-trivial = at least one placement")
	c.Ev.Assume("with-expecter (carried to template-data) and v2 filename (dropped) are outside the property's key list and are treated as don't-care")
	return nil
}

func stripWithExpecter(v any) {
	switch t := v.(type) {
	case map[string]any:
		if td, ok := t["template-data"].(map[string]any); ok {
			delete(td, "with-expecter")
		}
		for _, x := range t {
			stripWithExpecter(x)
		}
	case []any:
		for _, x := range t {
			stripWithExpecter(x)
		}
	}
}

func c19diff(path string, want, got any) []string {
	var out []string
	wm, wok := want.(map[string]any)
	gm, gok := got.(map[string]any)
	if wok && gok {
		keys := map[string]bool{}
		for k := range wm {
			keys[k] = true
		}
		for k := range gm {
			keys[k] = true
		}
		ks := []string{}
		for k := range keys {
			ks = append(ks, k)
		}
		sort.Strings(ks)
		for _, k := range ks {
			w, wo := wm[k]
			g, g0 := gm[k]
			p := path + "/" + k
			switch {
			case !wo:
				out = append(out, fmt.Sprintf("unexpected %s=%v", p, g))
			case !g0:
				out = append(out, fmt.Sprintf("missing %s (want %v)", p, w))
			default:
				out = append(out, c19diff(p, w, g)...)
			}
		}
		return out
	}
	wl, wok2 := want.([]any)
	gl, gok2 := got.([]any)
	if wok2 && gok2 && len(wl) == len(gl) {
		for i := range wl {
			out = append(out, c19diff(fmt.Sprintf("%s[%d]", path, i), wl[i], gl[i])...)
		}
		return out
	}
	if !reflect.DeepEqual(want, got) {
		out = append(out, fmt.Sprintf("%s: want %v got %v", path, want, got))
	}
	return out
}
