package checks

import (
	"path/filepath"
	"fmt"
	"regexp"
	"sort"
	"strings"

	"verif/engine/core"
)

func init() { Registry["C07"] = C07 }

// fixture package with a complete declaration mix
const c07src = `package p

import "example.com/m/q"

type Exp interface{ M() }

type unexp interface{ m() }

type Gen[T any] interface{ G(T) }

type Inst Gen[int]

// named types instantiating generic interfaces of ANOTHER package (one and two type arguments)
type RemoteInst q.QG[int]

type RemoteInst2 q.QG2[string, bool]

type St struct{ F int }

// blank-named declarations: nothing to mock, nothing to trip over
type _ interface{ Blank() }

type _[T any] interface{ BlankG(T) }

type Fn func()

type GenSt[T any] struct{ x T }

type InstSt GenSt[int]

type Num int

// alias declarations: whether an alias itself is mocked is left open, but it must never
// cause its target to be mocked twice
type AliasInst = Gen[int]

type AliasIface = Exp

type AliasStruct = St

var _ unexp
var _ q.Q
`

// same, plus function-local interface types (one with a fresh name, one shadowing Exp)
const c07srcLocal = `package p

func helper() {
	type Local interface{ L() }
	type Exp interface{ Other(int) string }
	var _ Local
	var _ Exp
	_ = func() {
		type Inner interface{ I() }
		var _ Inner
	}
}

// function literals outside any function declaration, and a method body
var pkgLevelLit = func() {
	type LitLocal interface{ LL() }
	type Gen interface{ Shadow() }
	var _ LitLocal
	var _ Gen
}

var _ = struct{ f func() }{f: func() {
	type Deep interface{ D() }
	var _ Deep
}}

func (St) method() {
	type InMethod interface{ IM() }
	type unexp interface{ shadow2() }
	var _ InMethod
	var _ unexp
}
`

const c07q = "package q\n\ntype Q interface{ QM() }\n\ntype QG[T any] interface{ QGM(T) T }\n\ntype QG2[A, B any] interface{ Two(A) B }\n"

var c07ifaces = []string{"Exp", "Gen", "Inst", "RemoteInst", "RemoteInst2", "unexp"}

type c07scn struct {
	id      string
	cfg     core.M
	files   map[string]string
	expect  []string // sorted "srcpkg|iface|struct"
	open    map[string]bool // mocks whose presence the statement leaves open
	wantErr bool
}

func tri(s string) any {
	switch s {
	case "true":
		return true
	case "false":
		return false
	}
	return nil
}

func c07baseRoot(probe string) core.M {
	return core.M{"template": "file://" + probe, "formatter": "noop", "require-template-schema-exists": false, "force-file-write": true, "log-level": "error"}
}

// reference model A1
func c07select(all, listed bool, include, exclude, name string) bool {
	if all || listed {
		return true
	}
	if include == "" {
		return false
	}
	if !regexp.MustCompile(include).MatchString(name) {
		return false
	}
	if exclude != "" && regexp.MustCompile(exclude).MatchString(name) {
		return false
	}
	return true
}

func mockName(iface string) string {
	if iface[0] >= 'A' && iface[0] <= 'Z' {
		return "Mock" + iface
	}
	return "mock" + iface
}

func C07(c *core.Ctx) error {
	if err := c.BuildMockery(); err != nil {
		return err
	}
	probe := c.Scratch + "/probe.templ"
	core.WriteTree(c.Scratch, map[string]string{"probe.templ": core.ProbeTemplate})
	P := core.ModPath + "/p"
	var scns []c07scn

	// ---------------- (a) decision table, full product
	regexPlacements := []struct{ name, root, pkg string }{
		{"none", "", ""}, {"root-match", "M", ""}, {"root-nomatch", "N", ""}, {"pkg-match", "", "M"}, {"pkg-nomatch", "", "N"},
		{"root-nomatch+pkg-match", "N", "M"}, {"root-match+pkg-nomatch", "M", "N"},
	}
	incRe := map[string]string{"M": "xp", "N": "Zzz"}   // matches Exp, unexp
	excRe := map[string]string{"M": "^un", "N": "Zzz"} // matches unexp
	for _, allRoot := range []string{"unset", "false", "true"} {
		for _, allPkg := range []string{"unset", "false", "true"} {
			// the listed interface is one the exclude pattern does not match (Exp) or one that both patterns match (unexp)
			for _, listed := range []string{"", "Exp", "unexp"} {
				for _, inc := range regexPlacements {
					for _, exc := range regexPlacements {
						root := c07baseRoot(probe)
						pkgc := core.M{}
						if v := tri(allRoot); v != nil {
							root["all"] = v
						}
						if v := tri(allPkg); v != nil {
							pkgc["all"] = v
						}
						if inc.root != "" {
							root["include-interface-regex"] = incRe[inc.root]
						}
						if inc.pkg != "" {
							pkgc["include-interface-regex"] = incRe[inc.pkg]
						}
						if exc.root != "" {
							root["exclude-interface-regex"] = excRe[exc.root]
						}
						if exc.pkg != "" {
							pkgc["exclude-interface-regex"] = excRe[exc.pkg]
						}
						pk := core.M{}
						if len(pkgc) > 0 {
							pk["config"] = pkgc
						}
						if listed != "" {
							pk["interfaces"] = core.M{listed: core.M{}}
						}
						root["packages"] = core.M{P: pk}
						// effective values: package wins over root
						effAll := allPkg
						if effAll == "unset" {
							effAll = allRoot
						}
						effInc := inc.pkg
						if effInc == "" {
							effInc = inc.root
						}
						effExc := exc.pkg
						if effExc == "" {
							effExc = exc.root
						}
						var exp []string
						for _, n := range c07ifaces {
							if c07select(effAll == "true", listed == n, incRe[effInc], excRe[effExc], n) {
								exp = append(exp, fmt.Sprintf("%s|%s|%s", P, n, mockName(n)))
							}
						}
						sort.Strings(exp)
						scns = append(scns, c07scn{
							id:     fmt.Sprintf("table all(root=%s,pkg=%s) listed=%v include=%s exclude=%s", allRoot, allPkg, map[string]string{"": "false", "Exp": "true", "unexp": "true(unexp)"}[listed], inc.name, exc.name),
							cfg:    root,
							files:  map[string]string{"p/p.go": c07src, "q/q.go": c07q},
							expect: exp,
						})
					}
				}
			}
		}
	}
	// order simplest first: number of deviations from (unset,unset,false,none,none)
	sort.SliceStable(scns, func(i, j int) bool { return c07dev(scns[i].id) < c07dev(scns[j].id) })
	if core.Quick(c.Tier) {
		// quick: dev <= 3 of the 5 dimensions (thorough: the full product)
		k := 0
		for _, s := range scns {
			if c07dev(s.id) <= 3 {
				scns[k] = s
				k++
			}
		}
		scns = scns[:k]
	}

	// ---------------- (b) configs length x listed/all, null bodies
	for _, n := range []int{-1, 0, 1, 2, 3} {
		for _, all := range []bool{false, true} {
			root := c07baseRoot(probe)
			ic := core.M{}
			var exp []string
			if n >= 0 {
				l := []any{}
				for i := 0; i < n; i++ {
					l = append(l, core.M{"structname": fmt.Sprintf("Mk%d", i), "filename": fmt.Sprintf("mocks_%d_test.go", i)})
				}
				ic["configs"] = l
			}
			if n <= 0 {
				exp = append(exp, P+"|Exp|MockExp")
			} else {
				for i := 0; i < n; i++ {
					exp = append(exp, fmt.Sprintf("%s|Exp|Mk%d", P, i))
				}
			}
			pk := core.M{"interfaces": core.M{"Exp": ic}}
			if all {
				pk["config"] = core.M{"all": true}
				for _, o := range []string{"Gen", "Inst", "RemoteInst", "RemoteInst2", "unexp"} {
					exp = append(exp, fmt.Sprintf("%s|%s|%s", P, o, mockName(o)))
				}
			}
			sort.Strings(exp)
			root["packages"] = core.M{P: pk}
			scns = append(scns, c07scn{id: fmt.Sprintf("configs len=%d all=%v", n, all), cfg: root, files: map[string]string{"p/p.go": c07src, "q/q.go": c07q}, expect: exp})
		}
	}
	{ // configured packages that share their package NAME (different import paths) with different selection settings:
		// each package is selected by its own settings
		srcOf := func(name string) string {
			return "package api\n\ntype Gamma interface{ G() }\n\ntype Delta interface{ D() }\n\ntype " + name + " interface{ Own() }\n"
		}
		files := map[string]string{"s1/api/a.go": srcOf("OnlyS1"), "s2/api/a.go": srcOf("OnlyS2"), "s3/api/a.go": srcOf("OnlyS3"), "s4/api/a.go": srcOf("OnlyS4")}
		S := func(k int) string { return fmt.Sprintf("%s/s%d/api", core.ModPath, k) }
		root := c07baseRoot(probe)
		root["packages"] = core.M{
			S(1): core.M{"config": core.M{"all": true}},
			S(2): core.M{"interfaces": core.M{"Gamma": core.M{}}},
			S(3): core.M{"config": core.M{"include-interface-regex": "^(Delta|OnlyS3)$"}},
			S(4): core.M{"config": core.M{"include-interface-regex": ".*", "exclude-interface-regex": "^Only"}},
		}
		exp := []string{S(1) + "|Delta|MockDelta", S(1) + "|Gamma|MockGamma", S(1) + "|OnlyS1|MockOnlyS1", S(2) + "|Gamma|MockGamma", S(3) + "|Delta|MockDelta", S(3) + "|OnlyS3|MockOnlyS3", S(4) + "|Delta|MockDelta", S(4) + "|Gamma|MockGamma"}
		sort.Strings(exp)
		scns = append(scns, c07scn{id: "four configured packages named api with different selection settings", cfg: root, files: files, expect: exp})
	}
	{ // configs entries that differ ONLY in the directory (same file name, same struct name), or only in the file name,
		// or only in the package name: still one mock per entry
		for _, only := range []string{"dir", "filename", "pkgname+dir"} {
			root := c07baseRoot(probe)
			var entries []any
			for k := 0; k < 3; k++ {
				e := core.M{}
				switch only {
				case "dir":
					e["dir"] = fmt.Sprintf("out/d%d", k)
				case "filename":
					e["filename"] = fmt.Sprintf("mocks_%d_test.go", k)
				case "pkgname+dir":
					e["dir"], e["pkgname"] = fmt.Sprintf("out/p%d", k), fmt.Sprintf("pk%d", k)
				}
				entries = append(entries, e)
			}
			root["packages"] = core.M{P: core.M{"interfaces": core.M{"Exp": core.M{"configs": entries}}}}
			exp := []string{P + "|Exp|MockExp", P + "|Exp|MockExp", P + "|Exp|MockExp"}
			scns = append(scns, c07scn{id: "three configs entries differing only in " + only, cfg: root, files: map[string]string{"p/p.go": c07src, "q/q.go": c07q}, expect: exp})
		}
	}
	{
		root := c07baseRoot(probe)
		root["packages"] = core.M{P: core.M{"interfaces": core.M{"Exp": nil, "unexp": nil}}}
		scns = append(scns, c07scn{id: "null interface bodies", cfg: root, files: map[string]string{"p/p.go": c07src, "q/q.go": c07q}, expect: []string{P + "|Exp|MockExp", P + "|unexp|mockunexp"}})
		root2 := c07baseRoot(probe)
		root2["all"] = true
		root2["packages"] = core.M{P: nil}
		scns = append(scns, c07scn{id: "null package body, all at root", cfg: root2, files: map[string]string{"p/p.go": c07src, "q/q.go": c07q},
			expect: []string{P + "|Exp|MockExp", P + "|Gen|MockGen", P + "|Inst|MockInst", P + "|RemoteInst2|MockRemoteInst2", P + "|RemoteInst|MockRemoteInst", P + "|unexp|mockunexp"}})
	}
	{ // source files with //line directives (ahead of the package clause, as goyacc writes them, and in the middle of a
		// file) next to plain ones, and a configured package that has nothing but test files (whether its interfaces
		// count is left open): the interfaces of every file of w are selected as usual, whichever package is parsed first
		W, AO, ZO := core.ModPath+"/w", core.ModPath+"/a_only", core.ModPath+"/z_only"
		testOnly := func(pk string) string {
			return "package " + pk + "\n\nimport \"testing\"\n\ntype OnlyInTest interface{ X() }\n\nfunc TestX(t *testing.T) {}\n"
		}
		files := map[string]string{
			"w/lex.go": "//line grammar.y:2\npackage w\n\ntype Lexer interface{ Lex() }\n",
			"w/mid.go": "package w\n\ntype Before interface{ B() }\n\n//line other.y:10\ntype After interface{ A() }\n",
			"w/z.go":   "package w\n\ntype Store interface{ S() }\n",
			"a_only/x_test.go": testOnly("a_only"), "z_only/x_test.go": testOnly("z_only"),
		}
		open := map[string]bool{AO + "|OnlyInTest|MockOnlyInTest": true, ZO + "|OnlyInTest|MockOnlyInTest": true}
		allW := []string{W + "|After|MockAfter", W + "|Before|MockBefore", W + "|Lexer|MockLexer", W + "|Store|MockStore"}
		for _, mode := range []string{"all", "regex", "listed"} {
			for _, with := range []string{"alone", "between test-only packages"} {
				root := c07baseRoot(probe)
				pk := core.M{}
				exp := allW
				switch mode {
				case "all":
					pk["config"] = core.M{"all": true}
				case "regex":
					pk["config"] = core.M{"include-interface-regex": "e"}
				case "listed":
					pk["interfaces"] = core.M{"Lexer": core.M{}, "After": core.M{}}
					exp = []string{W + "|After|MockAfter", W + "|Lexer|MockLexer"}
				}
				pkgs := core.M{W: pk}
				if with != "alone" {
					pkgs[AO], pkgs[ZO] = core.M{"config": core.M{"all": true}}, core.M{"config": core.M{"all": true}}
				}
				root["packages"] = pkgs
				scns = append(scns, c07scn{id: fmt.Sprintf("sources with //line directives, selection by %s, %s", mode, with), cfg: root, files: files, expect: exp, open: open})
			}
		}
	}
	// function-local types are never mocked (nor do they disturb the package-level ones)
	for _, mode := range []string{"all", "listed", "regex"} {
		root := c07baseRoot(probe)
		pk := core.M{}
		var exp []string
		switch mode {
		case "all":
			pk["config"] = core.M{"all": true}
			for _, o := range c07ifaces {
				exp = append(exp, fmt.Sprintf("%s|%s|%s", P, o, mockName(o)))
			}
		case "listed":
			pk["interfaces"] = core.M{"Exp": core.M{}}
			exp = []string{P + "|Exp|MockExp"}
		case "regex":
			pk["config"] = core.M{"include-interface-regex": "Exp|Local|Inner|LitLocal|Deep|InMethod"}
			exp = []string{P + "|Exp|MockExp"}
		}
		root["packages"] = core.M{P: pk}
		sort.Strings(exp)
		scns = append(scns, c07scn{id: "function-local types, " + mode, cfg: root,
			files: map[string]string{"p/p.go": c07src, "p/local.go": c07srcLocal, "q/q.go": c07q}, expect: exp})
	}

	// ---------------- (c) package trees under a recursive root
	maxNodes := 3
	if !core.Quick(c.Tier) {
		maxNodes = 4
	}
	scns = append(scns, c07trees(probe, maxNodes, core.Quick(c.Tier))...)
	scns = append(scns, c07forests(probe)...)
	scns = append(scns, c07patternLists(probe)...)

	// ---------------- run
	outcomes := map[string]struct{}{}
	outc := make([]string, len(scns))
	core.ParallelFor(len(scns), func(i int) {
		if c.Expired() {
			return
		}
		s := scns[i]
		files := map[string]string{".mockery.yml": core.YAML(s.cfg)}
		for k, v := range s.files {
			files[k] = v
		}
		m, err := c.NewModule(fmt.Sprintf("c07-%d", i), files)
		if err != nil {
			c.Harness("%v", err)
			return
		}
		defer m.Remove()
		r := c.RunMockery(m.Dir, nil)
		c.Ev.Add("transitions", 1)
		c.Ev.Add("evaluations", 1)
		c.Ev.Distinct("states", s.id)
		replay := map[string]any{"scenario": s.id, "files": files, "exit": r.Exit, "expected_mocks": s.expect}
		if core.ResourceFailure(r) {
			c.Skip("%s: run timed out or was killed", s.id)
			return
		}
		if r.Panicked() {
			c.Report("crash:"+s.id, "mockery crashed: "+firstN(r.Stderr, 700), replay)
			return
		}
		var got []string
		for _, f := range m.CollectProbe() {
			for _, mk := range f.Mocks {
				if strings.HasPrefix(mk.Iface, "Alias") {
					continue // mocking an alias declaration under its own name: don't care
				}
				if s.open[fmt.Sprintf("%s|%s|%s", f.SrcPkg, mk.Iface, mk.Struct)] {
					continue
				}
				got = append(got, fmt.Sprintf("%s|%s|%s", f.SrcPkg, mk.Iface, mk.Struct))
			}
		}
		sort.Strings(got)
		replay["observed_mocks"] = got
		outc[i] = strings.Join(got, ",") + fmt.Sprint(r.Exit)
		if r.Exit != 0 {
			c.Report("exit:"+s.id, fmt.Sprintf("valid configuration but exit %d: %s", r.Exit, firstN(r.Stderr+r.Stdout, 500)), replay)
			return
		}
		if strings.Join(got, "\n") != strings.Join(s.expect, "\n") {
			c.Report("mocks:"+s.id, fmt.Sprintf("mock multiset differs from the selection model.\n expected: %v\n observed: %v", s.expect, got), replay)
			return
		}
		if len(got) > 0 {
			c.Ev.Distinct("distinct_nontrivial", strings.Join(got, ","))
		}
		if i%131 == 0 {
			c.Ev.Sample(map[string]any{"scenario": s.id, "config": core.YAML(s.cfg), "mocks": got})
		}
	})
	done := 0
	for _, o := range outc {
		if o != "" {
			outcomes[o] = struct{}{}
			done++
		}
	}
	c.Ev.Set("traces_validated_against_impl", done)
	c.Ev.Set("distinct_outcomes", len(outcomes))
	c.Ev.Set("exhaustive", !c.Expired() && done == len(scns))
	c.Ev.Set("cases", len(scns))
	c.Ev.Set("bound", map[bool]string{true: "decision table: all(root) x all(pkg) x listed {no, an interface the exclusion pattern misses, one that both patterns match} x 7 include placements x 7 exclude placements with <=3 deviating dimensions; configs length {absent,0,1,2,3} x all; null bodies; function-local types; package trees <=3 nodes x 3 node kinds x 12 config variants", false: "decision table: full product (1323 rows); package trees <=4 nodes x 3 node kinds x 12 config variants; rest as quick"}[core.Quick(c.Tier)])
	c.Ev.Set("rule", "every scenario is a scratch module + config run through the CLI with a probe template that prints (source package, interface, struct) per mock; the multiset must equal the reference selection model A1; non-trivial/distinct = distinct non-empty mock multisets observed")
	c.Ev.Assume("alias declarations and `type X OtherInterface` forms are outside the alphabet (the statement leaves them open); per-file parameters are set at the root so that C08 consumption issues do not interfere")
	return nil
}

func c07dev(id string) int {
	n := 0
	if !strings.Contains(id, "root=unset") {
		n++
	}
	if !strings.Contains(id, "pkg=unset") {
		n++
	}
	if strings.Contains(id, "listed=true") {
		n++
	}
	if !strings.Contains(id, "include=none") {
		n++
	}
	if !strings.Contains(id, "exclude=none") {
		n++
	}
	return n
}

// ---- package trees

func c07trees(probe string, maxNodes int, quick bool) []c07scn {
	var out []c07scn
	R := core.ModPath + "/r"
	kinds := []string{"go", "nongo", "skip"}
	var parents [][]int
	var gen func(cur []int, n int)
	gen = func(cur []int, n int) {
		if len(cur) == n {
			parents = append(parents, append([]int{}, cur...))
			return
		}
		for p := 0; p < len(cur); p++ {
			gen(append(cur, p), n)
		}
	}
	for n := 1; n <= maxNodes; n++ {
		gen([]int{-1}, n)
	}
	for _, par := range parents {
		n := len(par)
		// kind assignments for nodes 1..n-1
		total := 1
		for i := 1; i < n; i++ {
			total *= 3
		}
		for code := 0; code < total; code++ {
			kind := make([]string, n)
			kind[0] = "go"
			x := code
			for i := 1; i < n; i++ {
				kind[i] = kinds[x%3]
				x /= 3
			}
			// node names / paths
			name := make([]string, n)
			path := make([]string, n) // dir relative to module
			for i := 0; i < n; i++ {
				nm := fmt.Sprintf("n%d", i)
				if kind[i] == "skip" {
					nm = fmt.Sprintf("skip%d", i)
				}
				name[i] = nm
				if i == 0 {
					path[i] = "r"
				} else {
					path[i] = path[par[i]] + "/" + nm
				}
			}
			files := map[string]string{}
			for i := 0; i < n; i++ {
				if kind[i] == "nongo" {
					files[path[i]+"/README.txt"] = "no go files here\n"
				} else {
					pk := "r"
					if i > 0 {
						pk = name[i]
					}
					files[path[i]+"/x.go"] = fmt.Sprintf("package %s\n\ntype I interface{ M%d() }\n", pk, i)
				}
			}
			for _, recPlace := range []string{"pkg", "root"} {
				for _, exclPlace := range []string{"root", "pkg"} {
					for _, pre := range []string{"none", "plain", "recursive"} {
						if pre != "none" && (n < 2 || kind[1] != "go") {
							continue
						}
						root := c07baseRoot(probe)
						rc := core.M{"all": true, "structname": "R_{{.InterfaceName}}"}
						if recPlace == "pkg" {
							rc["recursive"] = true
						} else {
							root["recursive"] = true
						}
						if exclPlace == "pkg" {
							rc["exclude-subpkg-regex"] = []any{"skip"}
						} else {
							root["exclude-subpkg-regex"] = []any{"skip"}
						}
						pkgs := core.M{R: core.M{"config": rc}}
						configured := map[int]string{0: "R"} // node -> marker
						recursive := map[int]bool{0: true}
						if pre != "none" {
							dc := core.M{"all": true, "structname": "D_{{.InterfaceName}}"}
							if pre == "recursive" {
								dc["recursive"] = true
								recursive[1] = true
							} else if recPlace == "root" {
								recursive[1] = true // inherits recursive from the root level
							} else {
								dc["recursive"] = false
							}
							pkgs[core.ModPath+"/"+path[1]] = core.M{"config": dc}
							configured[1] = "D"
						}
						root["packages"] = pkgs
						// model
						var exp []string
						for i := 0; i < n; i++ {
							if kind[i] == "nongo" {
								continue
							}
							marker := ""
							if mk, ok := configured[i]; ok {
								marker = mk
							} else {
								// nearest configured recursive strict ancestor
								a := par[i]
								for a >= 0 {
									if _, ok := configured[a]; ok && recursive[a] {
										break
									}
									a = par[a]
								}
								if a < 0 {
									continue
								}
								// excluded when a regex of the ancestor's effective config matches the
								// sub-package's path; the list written on package R is not inherited by D
								hasExcl := exclPlace == "root" || a == 0
								if hasExcl && strings.Contains(path[i], "skip") {
									continue
								}
								marker = configured[a]
							}
							exp = append(exp, fmt.Sprintf("%s/%s|I|%s_I", core.ModPath, path[i], marker))
						}
						sort.Strings(exp)
						id := fmt.Sprintf("tree parents=%v kinds=%v recursive@%s exclude@%s preconfigured=%s", par, kind, recPlace, exclPlace, pre)
						out = append(out, c07scn{id: id, cfg: root, files: files, expect: exp})
					}
				}
			}
		}
	}
	return out
}

// c07forests: several recursive roots (two siblings and one configured inside the first), each with its own
// exclusion list; a sub-package is left out exactly when a pattern of ITS nearest configured recursive ancestor
// matches it -- the lists of the other roots, processed before or after, are irrelevant.
func c07forests(probe string) []c07scn {
	var out []c07scn
	P := func(s string) string { return core.ModPath + "/" + s }
	roots := []string{"alpha", "alpha/inner", "beta"}
	subs := []string{"gen", "tmp", "ok"}
	files := map[string]string{}
	for _, r := range roots {
		files[r+"/x.go"] = fmt.Sprintf("package %s\n\ntype I interface{ M() }\n", filepath.Base(r))
		for _, sp := range subs {
			files[r+"/"+sp+"/x.go"] = fmt.Sprintf("package %s\n\ntype I interface{ M() }\n", sp)
		}
	}
	// directories whose paths merely START like a configured nested root (no separator in between): they belong to
	// alpha's recursion, not to alpha/inner's
	files["alpha/innerx/x.go"] = "package innerx\n\ntype I interface{ M() }\n"
	files["alpha/innerx/sub/x.go"] = "package sub\n\ntype I interface{ M() }\n"
	files["alpha/inner-2/x.go"] = "package inner2\n\ntype I interface{ M() }\n"
	prefixSiblings := []string{"alpha/innerx", "alpha/innerx/sub", "alpha/inner-2"}
	lists := [][]string{nil, {"gen$"}, {"tmp$"}, {"gen$", "tmp$"}}
	for _, rootList := range [][]string{nil, {"ok$"}} {
		for code := 0; code < 64; code++ {
			pick := []int{code % 4, code / 4 % 4, code / 16}
			root := c07baseRoot(probe)
			if rootList != nil {
				root["exclude-subpkg-regex"] = toAny(rootList)
			}
			pkgs := core.M{}
			var exp []string
			open := map[string]bool{}
			effOf := map[string][]string{}
			for ri, r := range roots {
				marker := fmt.Sprintf("R%d", ri)
				rc := core.M{"all": true, "recursive": true, "structname": marker + "_{{.InterfaceName}}"}
				eff := rootList
				if l := lists[pick[ri]]; l != nil {
					rc["exclude-subpkg-regex"] = toAny(l)
					eff = l
				}
				pkgs[P(r)] = core.M{"config": rc}
				effOf[r] = eff
				exp = append(exp, fmt.Sprintf("%s|I|%s_I", P(r), marker))
				for _, sp := range subs {
					excluded := false
					for _, pat := range eff {
						if regexp.MustCompile(pat).MatchString(P(r + "/" + sp)) {
							excluded = true
						}
					}
					if !excluded {
						exp = append(exp, fmt.Sprintf("%s|I|%s_I", P(r+"/"+sp), marker))
					} else if r == "alpha/inner" {
						// excluded by its nearest recursive ancestor but also below alpha: whether alpha's own
						// recursion (whose list may not match) picks it up is left open by the statement
						viaAlpha := true
						for _, pat := range effOf["alpha"] {
							if regexp.MustCompile(pat).MatchString(P(r + "/" + sp)) {
								viaAlpha = false
							}
						}
						if viaAlpha {
							open[fmt.Sprintf("%s|I|R0_I", P(r+"/"+sp))] = true
						}
					}
				}
			}
			for _, ps := range prefixSiblings {
				excluded := false
				for _, pat := range effOf["alpha"] {
					if regexp.MustCompile(pat).MatchString(P(ps)) {
						excluded = true
					}
				}
				if !excluded {
					exp = append(exp, fmt.Sprintf("%s|I|R0_I", P(ps)))
				}
			}
			root["packages"] = pkgs
			sort.Strings(exp)
			out = append(out, c07scn{id: fmt.Sprintf("forest exclude lists alpha=%v alpha/inner=%v beta=%v top-level=%v", lists[pick[0]], lists[pick[1]], lists[pick[2]], rootList), cfg: root, files: files, expect: exp, open: open})
		}
	}
	return out
}

// c07patternLists: exclude-subpkg-regex is a LIST of patterns, each a regular expression of its own: a sub-package
// is left out exactly when one of them, taken alone, matches its path. Every ordered selection of one to three
// patterns from a pool whose members carry inline flags, groups and alternations (what goes wrong when patterns
// are glued together or share state).
func c07patternLists(probe string) []c07scn {
	var out []c07scn
	P := func(s string) string { return core.ModPath + "/" + s }
	// (two spellings of one name may not sit side by side: import paths must differ by more than letter case)
	subs := []string{"a", "b", "a/legacy", "b/LEGACY", "a/gen", "b/Gen", "a/tmp", "b/TMP", "a/ok", "b/OK", "a/okay"}
	files := map[string]string{"r/x.go": "package r\n\ntype I interface{ M() }\n"}
	for _, sp := range subs {
		files["r/"+sp+"/x.go"] = fmt.Sprintf("package %s\n\ntype I interface{ M() }\n", strings.ToLower(filepath.Base(sp)))
	}
	pool := []string{`(?i)/LEGACY$`, `/Gen$`, `(?i:/TMP)$`, `/ok$|/OK$`}
	var lists [][]string
	var rec func(cur []string)
	rec = func(cur []string) {
		if len(cur) > 0 {
			lists = append(lists, append([]string{}, cur...))
		}
		if len(cur) == 3 {
			return
		}
	next:
		for _, p := range pool {
			for _, c := range cur {
				if c == p {
					continue next
				}
			}
			rec(append(cur, p))
		}
	}
	rec(nil)
	for _, l := range lists {
		root := c07baseRoot(probe)
		root["packages"] = core.M{P("r"): core.M{"config": core.M{"all": true, "recursive": true, "exclude-subpkg-regex": toAny(l)}}}
		exp := []string{P("r") + "|I|MockI"}
		for _, sp := range subs {
			excluded := false
			for _, pat := range l {
				if regexp.MustCompile(pat).MatchString(P("r/" + sp)) {
					excluded = true
				}
			}
			if !excluded {
				exp = append(exp, P("r/"+sp)+"|I|MockI")
			}
		}
		sort.Strings(exp)
		out = append(out, c07scn{id: fmt.Sprintf("exclusion pattern list %q", l), cfg: root, files: files, expect: exp})
	}
	return out
}

func toAny(l []string) []any {
	var out []any
	for _, x := range l {
		out = append(out, x)
	}
	return out
}
