package checks

import (
	"bufio"
	"encoding/json"
	"fmt"
	"math"
	"os"
	"path/filepath"
	"regexp"
	"strconv"
	"strings"
	"time"
	"unicode"
	"unicode/utf8"

	"verif/engine/assets"
	"verif/engine/core"
)

func init() { Registry["C16"] = C16 }

type c16arg struct {
	S  *string  `json:"s,omitempty"`
	I  *int     `json:"i,omitempty"`
	F  *float64 `json:"f,omitempty"`
	SS []string `json:"ss,omitempty"`
	L  bool     `json:"l,omitempty"`
}

type c16case struct {
	Fn   string   `json:"fn"`
	Args []c16arg `json:"args"`
	// expectation (not sent)
	want     string // %#v of the reference value; "" with wantErr / dontCare
	wantErr  bool   // an error is the documented outcome (e.g. readFile of a missing file)
	dontCare bool   // totality only
	trivial  bool
}

func sArg(s string) c16arg  { q := strconv.Quote(s); return c16arg{S: &q} }
func iArg(i int) c16arg     { return c16arg{I: &i} }
func fArg(f float64) c16arg { return c16arg{F: &f} }
func lArg(l []string) c16arg {
	q := make([]string, len(l))
	for i, s := range l {
		q[i] = strconv.Quote(s)
	}
	return c16arg{SS: q, L: true}
}

var c16Initialisms = []string{
	"ACL", "API", "ASCII", "CPU", "CSS", "DNS", "EOF", "GUID", "HTML", "HTTP", "HTTPS", "ID", "IP", "JSON", "LHS",
	"QPS", "RAM", "RHS", "RPC", "SLA", "SMTP", "SQL", "SSH", "TCP", "TLS", "TTL", "UDP", "UI", "UID", "UUID", "URI",
	"URL", "UTF8", "VM", "XML", "XMPP", "XSRF", "XSS",
}

// reference: first letter upper-cased, or the matching initialism.
func refExported(s string) (string, bool) {
	if s == "" {
		return "", true
	}
	for _, in := range c16Initialisms {
		if strings.ToUpper(s) == in {
			return in, true
		}
	}
	r, sz := utf8.DecodeRuneInString(s)
	if r == utf8.RuneError && sz <= 1 {
		return "", false // no first letter: value is don't-care
	}
	return string(unicode.ToUpper(r)) + s[sz:], true
}

func refFirstIsLower(s string) bool {
	if s == "" {
		return false
	}
	r, sz := utf8.DecodeRuneInString(s)
	if r == utf8.RuneError && sz <= 1 {
		return false
	}
	return unicode.IsLetter(r) && unicode.IsLower(r)
}

func refFirstUpper(s string) (string, bool) {
	if s == "" {
		return "", true
	}
	r, sz := utf8.DecodeRuneInString(s)
	if r == utf8.RuneError && sz <= 1 {
		return "", false
	}
	return string(unicode.ToUpper(r)) + s[sz:], true
}

func refFirstLower(s string) (string, bool) {
	if s == "" {
		return "", true
	}
	r, sz := utf8.DecodeRuneInString(s)
	if r == utf8.RuneError && sz <= 1 {
		return "", false
	}
	return string(unicode.ToLower(r)) + s[sz:], true
}

func show(v any) string { return fmt.Sprintf("%#v", v) }

func C16(c *core.Ctx) error {
	if err := c.CopyRepo(); err != nil {
		return err
	}
	if err := c.AddRepoFiles(map[string]string{"internal/verifx/c16/main.go": assets.Must("c16/main.go.txt")}); err != nil {
		return err
	}
	bin := filepath.Join(c.Scratch, "c16drv")
	if err := c.BuildRepoPkg(".", "./internal/verifx/c16", bin); err != nil {
		return err
	}
	// controlled environment for getenv/expandEnv/readFile
	probeFile := filepath.Join(c.Scratch, "probe.txt")
	os.WriteFile(probeFile, []byte("file content\nline2\n"), 0o644)
	missing := filepath.Join(c.Scratch, "missing.txt")

	strs := []string{"", "a", "A", "ab", "aB", "a b", "a,b", ",a,", "aa", "é", "Éa", "ß", "\xff", "id", "Id", "ID", "http", "1a", "_a",
		// white space inside and outside ASCII at both ends (no-break space, next line, ideographic space)
		" \u00a0a\u0085 ", "\u3000\ta b\v\u2003"}
	if !core.Quick(c.Tier) {
		strs = append(strs, "\u0085", "\u00a0 x", "x \u2028", "helloWorld", "hello_world", "a.b", "/a/b/", "a\xffb", "éé", "url", "Url", ".", "a\n")
	}
	ints := []int{-2, -1, 0, 1, 2, 3}
	var cases []c16case
	add := func(fn string, want any, args ...c16arg) {
		cases = append(cases, c16case{Fn: fn, Args: args, want: show(want)})
	}
	addDC := func(fn string, args ...c16arg) {
		cases = append(cases, c16case{Fn: fn, Args: args, dontCare: true})
	}
	addErr := func(fn string, args ...c16arg) {
		cases = append(cases, c16case{Fn: fn, Args: args, wantErr: true})
	}
	// two-argument string functions, subject last
	two := map[string]func(a, s string) any{
		"contains":   func(a, s string) any { return strings.Contains(s, a) },
		"hasPrefix":  func(a, s string) any { return strings.HasPrefix(s, a) },
		"hasSuffix":  func(a, s string) any { return strings.HasSuffix(s, a) },
		"split":      func(a, s string) any { return strings.Split(s, a) },
		"splitAfter": func(a, s string) any { return strings.SplitAfter(s, a) },
		"trim":       func(a, s string) any { return strings.Trim(s, a) },
		"trimLeft":   func(a, s string) any { return strings.TrimLeft(s, a) },
		"trimPrefix": func(a, s string) any { return strings.TrimPrefix(s, a) },
		"trimRight":  func(a, s string) any { return strings.TrimRight(s, a) },
		"trimSuffix": func(a, s string) any { return strings.TrimSuffix(s, a) },
	}
	for _, fn := range core.SortedKeys(two) {
		for _, a := range strs {
			for _, s := range strs {
				add(fn, two[fn](a, s), sArg(a), sArg(s))
			}
		}
	}
	for _, p := range strs {
		for _, s := range strs {
			m, err := regexp.MatchString(p, s)
			if err != nil {
				addErr("matchString", sArg(p), sArg(s))
			} else {
				add("matchString", m, sArg(p), sArg(s))
			}
		}
	}
	for _, a := range strs {
		for _, b := range strs {
			for _, s := range strs {
				add("replaceAll", strings.ReplaceAll(s, a, b), sArg(a), sArg(b), sArg(s))
			}
		}
	}
	// replace / splitAfterN with counts; the string alphabet is reduced for
	// replace in the quick tier (full cube in thorough)
	rs := strs
	if core.Quick(c.Tier) {
		rs = []string{"", "a", "A", "aa", "a,b", ",a,", "é", "\xff"}
	}
	for _, a := range rs {
		for _, b := range rs {
			for _, n := range ints {
				for _, s := range strs {
					add("replace", strings.Replace(s, a, b, n), sArg(a), sArg(b), iArg(n), sArg(s))
				}
			}
		}
	}
	for _, a := range strs {
		for _, n := range ints {
			for _, s := range strs {
				add("splitAfterN", strings.SplitAfterN(s, a, n), sArg(a), iArg(n), sArg(s))
			}
		}
	}
	lists := [][]string{{}, {""}, {"a"}, {"a", "b"}, {"", "a", ""}, {"é", "\xff"}}
	for _, sep := range strs {
		for _, l := range lists {
			add("join", strings.Join(l, sep), sArg(sep), lArg(l))
		}
	}
	one := map[string]func(s string) any{
		"trimSpace": func(s string) any { return strings.TrimSpace(s) },
		"lower":     func(s string) any { return strings.ToLower(s) },
		"upper":     func(s string) any { return strings.ToUpper(s) },
		"quoteMeta": func(s string) any { return regexp.QuoteMeta(s) },
		"base":      func(s string) any { return filepath.Base(s) },
		"clean":     func(s string) any { return filepath.Clean(s) },
		"dir":       func(s string) any { return filepath.Dir(s) },
	}
	// incl. first runes whose case mapping changes the UTF-8 length (dotless i, turned a, long s, digraphs)
	spaced := append([]string{" a ", "\ta\n", " ", "a/b", "a/b/", "/", "a/../b", "./a", "a//b", "ısı", "ɐlpha", "ɐ", "ſa", "ǆx", "ⱥb", "İx", "Ⱥ"}, strs...)
	for _, fn := range core.SortedKeys(one) {
		for _, s := range spaced {
			add(fn, one[fn](s), sArg(s))
		}
	}
	// letters without case (CJK, Hebrew) and a title-case digraph: letters, but not lower-case ones (only firstIsLower is
	// asked about them: what "upper-casing" a title-case letter means is not stated)
	for _, s := range []string{"中文", "שלום", "ǅungla", "ǅ", "中", "ǅx y"} {
		add("firstIsLower", refFirstIsLower(s), sArg(s))
	}
	for _, s := range spaced {
		add("firstIsLower", refFirstIsLower(s), sArg(s))
		if v, ok := refExported(s); ok {
			add("exported", v, sArg(s))
		} else {
			addDC("exported", sArg(s))
		}
		if v, ok := refFirstUpper(s); ok {
			add("firstUpper", v, sArg(s))
		} else {
			addDC("firstUpper", sArg(s))
		}
		if v, ok := refFirstLower(s); ok {
			add("firstLower", v, sArg(s))
		} else {
			addDC("firstLower", sArg(s))
		}
		for _, fn := range []string{"camelcase", "snakecase", "kebabcase"} {
			addDC(fn, sArg(s))
		}
	}
	for _, in := range c16Initialisms {
		for _, form := range []string{strings.ToLower(in), strings.ToUpper(in[:1]) + strings.ToLower(in[1:]), in} {
			add("exported", in, sArg(form))
			add("firstIsLower", unicode.IsLower(rune(form[0])), sArg(form))
		}
	}
	// the case functions "behave as named" on conventional identifiers
	add("snakecase", "hello_world", sArg("helloWorld"))
	add("snakecase", "hello_world", sArg("HelloWorld"))
	add("snakecase", "hello_world", sArg("hello-world"))
	add("kebabcase", "hello-world", sArg("helloWorld"))
	add("kebabcase", "hello-world", sArg("HelloWorld"))
	add("kebabcase", "hello-world", sArg("hello_world"))
	add("camelcase", "helloWorld", sArg("hello_world"))
	add("camelcase", "helloWorld", sArg("hello-world"))
	add("snakecase", "foo", sArg("foo"))
	add("kebabcase", "foo", sArg("foo"))
	add("camelcase", "foo", sArg("foo"))
	// arithmetic, 1..3 operands
	fold := func(op func(a, b int) int, xs []int) int {
		r := xs[0]
		for _, x := range xs[1:] {
			r = op(r, x)
		}
		return r
	}
	ar := map[string]func(a, b int) int{
		"add": func(a, b int) int { return a + b }, "sub": func(a, b int) int { return a - b },
		"mul": func(a, b int) int { return a * b }, "div": func(a, b int) int { return a / b },
		"mod": func(a, b int) int { return a % b },
		"min": func(a, b int) int {
			if b < a {
				return b
			}
			return a
		},
	}
	var tuples [][]int
	for _, a := range ints {
		tuples = append(tuples, []int{a})
		for _, b := range ints {
			tuples = append(tuples, []int{a, b})
			for _, d := range ints {
				tuples = append(tuples, []int{a, b, d})
			}
		}
	}
	// operands whose products and sums leave the int64 range: "integer arithmetic over all their arguments" is the
	// left fold, step by step (dividing once by the product of the divisors is something else)
	bigs := []int{4294967296, 4000000000, 9000000000000000000, 9223372036854775807}
	for _, a := range bigs {
		for _, b := range append([]int{2, 3, -1}, bigs...) {
			tuples = append(tuples, []int{a, b}, []int{a, b, b}, []int{8, a, b})
		}
	}
	for _, fn := range core.SortedKeys(ar) {
		for _, t := range tuples {
			if fn == "div" || fn == "mod" {
				zero := false
				for _, x := range t[1:] {
					if x == 0 {
						zero = true
					}
				}
				if zero {
					// undefined: must still be total (value or template error)
					args := []c16arg{}
					for _, x := range t {
						args = append(args, iArg(x))
					}
					addDC(fn, args...)
					continue
				}
			}
			args := []c16arg{}
			for _, x := range t {
				args = append(args, iArg(x))
			}
			add(fn, fold(ar[fn], t), args...)
		}
	}
	for _, a := range ints {
		add("incr", a+1, iArg(a))
		add("decr", a-1, iArg(a))
	}
	for _, f := range []float64{-1.5, -0.5, 0, 0.4, 0.5, 1.5, 2.6} {
		add("ceil", math.Ceil(f), fArg(f))
		add("floor", math.Floor(f), fArg(f))
		add("round", math.Round(f), fArg(f))
	}
	// environment / file system / randomness under a controlled environment
	add("getenv", "val ue", sArg("VERIF_C16_X"))
	add("getenv", "", sArg("VERIF_C16_UNSET"))
	add("getenv", "", sArg(""))
	add("expandEnv", "val ue/a", sArg("$VERIF_C16_X/a"))
	add("expandEnv", "val ue", sArg("${VERIF_C16_X}"))
	add("expandEnv", "-", sArg("$VERIF_C16_UNSET-"))
	add("expandEnv", "", sArg(""))
	add("readFile", "", sArg(""))
	add("readFile", "file content\nline2\n", sArg(probeFile))
	addErr("readFile", sArg(missing))
	addErr("readFile", sArg(c.Scratch)) // a directory
	addDC("randInt")

	// mark trivial cases: the reference result equals the subject argument
	// rendering or is the zero bool (rule for distinct_nontrivial)
	for i := range cases {
		cs := &cases[i]
		if cs.dontCare || cs.wantErr {
			continue
		}
		if cs.want == "false" || cs.want == `""` {
			cs.trivial = true
		}
		if n := len(cs.Args); n > 0 && cs.Args[n-1].S != nil && cs.want == *cs.Args[n-1].S {
			cs.trivial = true
		}
	}

	// shard the case list over worker processes
	nshards := core.Workers()
	results := make([][]string, nshards)
	errs := make([]error, nshards)
	core.ParallelFor(nshards, func(sh int) {
		var sb strings.Builder
		enc := json.NewEncoder(&sb)
		for i := sh; i < len(cases); i += nshards {
			enc.Encode(struct {
				Fn   string   `json:"fn"`
				Args []c16arg `json:"args"`
			}{cases[i].Fn, cases[i].Args})
		}
		env := core.UserEnv("VERIF_C16_X=val ue")
		r := core.Run(c.Scratch, env, 5*time.Minute, sb.String(), bin)
		if r.Exit != 0 {
			// the driver process died: find the culprit by running the shard case by case
			errs[sh] = fmt.Errorf("driver exit %d: %s", r.Exit, firstN(r.Stderr, 600))
			return
		}
		sc := bufio.NewScanner(strings.NewReader(r.Stdout))
		sc.Buffer(make([]byte, 1<<20), 1<<24)
		for sc.Scan() {
			results[sh] = append(results[sh], sc.Text())
		}
	})
	for sh, err := range errs {
		if err != nil {
			// a crash of the process is itself a totality violation; attribute it
			for i := sh; i < len(cases); i += nshards {
				var sb strings.Builder
				json.NewEncoder(&sb).Encode(struct {
					Fn   string   `json:"fn"`
					Args []c16arg `json:"args"`
				}{cases[i].Fn, cases[i].Args})
				r := core.Run(c.Scratch, core.UserEnv("VERIF_C16_X=val ue"), time.Minute, sb.String(), bin)
				if r.Exit != 0 {
					c.Report("crash:"+caseKey(cases[i]), "evaluating "+caseKey(cases[i])+" terminated the process: "+firstN(r.Stderr, 400), cases[i])
					break
				}
			}
			if c.NumViolations() == 0 {
				return err
			}
		}
	}
	outcomes := map[string]struct{}{}
	for sh := 0; sh < nshards; sh++ {
		k := 0
		for i := sh; i < len(cases); i += nshards {
			if errs[sh] != nil {
				break
			}
			if k >= len(results[sh]) {
				return fmt.Errorf("shard %d: missing result line %d", sh, k)
			}
			line := results[sh][k]
			k++
			cs := cases[i]
			key := caseKey(cs)
			c.Ev.Add("transitions", 1)
			c.Ev.Add("evaluations", 1)
			c.Ev.Distinct("states", key)
			kind, payload := line[:1], ""
			if len(line) > 2 {
				payload, _ = strconv.Unquote(line[2:])
			}
			outcomes[kind+payload] = struct{}{}
			if !cs.trivial && !cs.dontCare {
				c.Ev.Distinct("distinct_nontrivial", key)
			}
			if i%1500 == 0 {
				c.Ev.Sample(map[string]any{"call": key, "observed": line, "expected": cs.want})
			}
			switch {
			case cs.dontCare:
				// totality only: value or template error, process alive (it is)
			case cs.wantErr:
				if kind == "V" {
					c.Report("noerr:"+key, fmt.Sprintf("%s: expected a template error, got value %s", key, payload), cs)
				}
			default:
				if kind != "V" {
					c.Report("err:"+key, fmt.Sprintf("%s: expected %s, got template error: %s", key, cs.want, payload), cs)
				} else if payload != cs.want {
					c.Report("val:"+key, fmt.Sprintf("%s: expected %s, got %s", key, cs.want, payload), cs)
				}
			}
		}
	}
	// ---- CLI slice: the same function map must be what a template rendered by the real binary sees. A probe
	// template applies every string/int-argument case with a pinned expectation (up to 1500) and prints %#v.
	cliN := 0
	if err := c.BuildMockery(); err == nil {
		var tb strings.Builder
		tb.WriteString("// Code generated by verif probe (C16); DO NOT EDIT.\npackage {{.PkgName}}\n")
		var picked []int
		skipFn := map[string]bool{"getenv": true, "expandEnv": true, "readFile": true, "randInt": true, "join": true}
		for i, cs := range cases {
			if cs.dontCare || cs.wantErr || skipFn[cs.Fn] || len(picked) >= 1500 {
				continue
			}
			ok := true
			var args []string
			for _, a := range cs.Args {
				switch {
				case a.S != nil:
					args = append(args, *a.S)
				case a.I != nil:
					args = append(args, strconv.Itoa(*a.I))
				case a.F != nil:
					args = append(args, strconv.FormatFloat(*a.F, 'f', -1, 64))
				default:
					ok = false
				}
			}
			// keep the slice spread over all functions: every 7th case plus all case-function cases
			if !ok || (i%7 != 0 && cs.Fn != "exported" && cs.Fn != "firstIsLower" && cs.Fn != "firstUpper" && cs.Fn != "firstLower") {
				continue
			}
			picked = append(picked, i)
			fmt.Fprintf(&tb, "// CASE|%d|{{ printf \"%%#v\" (%s %s) }}\n", i, cs.Fn, strings.Join(args, " "))
		}
		tdir := filepath.Join(c.Scratch, "c16t")
		core.WriteTree(tdir, map[string]string{"probe.templ": tb.String()})
		cfg := core.M{"template": "file://" + filepath.Join(tdir, "probe.templ"), "formatter": "noop", "require-template-schema-exists": false, "log-level": "error",
			"dir": "{{.InterfaceDir}}", "filename": "mocks_gen_test.go", "packages": core.M{core.ModPath + "/p": core.M{"interfaces": core.M{"I": core.M{}}}}}
		if m, err := c.NewModule("c16-cli", map[string]string{"p/p.go": "package p\n\ntype I interface{ M() }\n", ".mockery.yml": core.YAML(cfg)}); err == nil {
			r := c.RunMockery(m.Dir, nil)
			out, _ := m.Read("p/mocks_gen_test.go")
			m.Remove()
			if r.Exit != 0 {
				c.Report("cli:render", "a probe template applying the function map could not be rendered by the CLI: "+firstN(r.Stderr, 500), nil)
			} else {
				for _, l := range strings.Split(out, "\n") {
					f := strings.SplitN(l, "|", 3)
					if len(f) != 3 || !strings.HasPrefix(l, "// CASE|") {
						continue
					}
					i, _ := strconv.Atoi(f[1])
					cliN++
					if f[2] != cases[i].want {
						c.Report("cli:"+caseKey(cases[i]), fmt.Sprintf("%s rendered through the CLI gives %s, expected %s", caseKey(cases[i]), f[2], cases[i].want), cases[i])
					}
				}
				if cliN != len(picked) {
					c.Report("cli:count", fmt.Sprintf("%d of %d cases came back from the CLI", cliN, len(picked)), nil)
				}
			}
		}
	}
	c.Ev.Set("cli_cases_compared", cliN)
	c.Ev.Set("traces_validated_against_impl", len(cases)+cliN)
	c.Ev.Set("distinct_outcomes", len(outcomes))
	c.Ev.Set("exhaustive", true)
	c.Ev.Set("rule", "every FuncMap entry x every argument tuple over the string/int/float alphabets, each evaluated through text/template on the implementation built from the working tree and compared with an independent reference (stdlib namesake with subject last, left fold integer arithmetic, rune-wise case functions); non-trivial = reference result is neither the unchanged subject nor false/empty")
	c.Ev.Set("alphabet_strings", quoteAll(strs))
	c.Ev.Set("alphabet_ints", ints)
	c.Ev.Set("bound", "all tuples over the alphabets; arithmetic with 1-3 operands; replace uses a reduced old/new alphabet in the quick tier")
	c.Ev.Assume("reference functions are the Go standard library namesakes; xstrings case conversions are checked on conventional identifiers only (value otherwise don't-care, totality always)")
	c.Ev.Assume("value of exported/firstUpper/firstLower on a string whose first byte is invalid UTF-8 is don't-care (no first letter); totality is still required")
	return nil
}

func quoteAll(s []string) []string {
	o := make([]string, len(s))
	for i, x := range s {
		o[i] = strconv.Quote(x)
	}
	return o
}

func firstN(s string, n int) string {
	if len(s) > n {
		return s[:n] + "..."
	}
	return s
}

func caseKey(cs c16case) string {
	var sb strings.Builder
	sb.WriteString(cs.Fn)
	sb.WriteString("(")
	for i, a := range cs.Args {
		if i > 0 {
			sb.WriteString(", ")
		}
		switch {
		case a.S != nil:
			sb.WriteString(*a.S)
		case a.I != nil:
			sb.WriteString(strconv.Itoa(*a.I))
		case a.F != nil:
			sb.WriteString(strconv.FormatFloat(*a.F, 'g', -1, 64))
		default:
			sb.WriteString("[" + strings.Join(a.SS, " ") + "]")
		}
	}
	sb.WriteString(")")
	return sb.String()
}
