package checks

import (
	"fmt"
	"go/build/constraint"
	"go/parser"
	"go/token"
	"regexp"
	"sort"
	"strings"
	"sync"
	"time"

	"verif/engine/core"
)

func init() { Registry["C17"] = C17 }

var c17marker = regexp.MustCompile(`^// Code generated .* DO NOT EDIT\.$`)

func C17(c *core.Ctx) error {
	if err := c.BuildMockery(); err != nil {
		return err
	}
	quick := core.Quick(c.Tier)
	exprs := []string{"", "a", "!a", "a && b", "a || b", "(a || b) && !c", "linux", "!linux && a", "integration", "unit && !debug"}
	if !quick {
		exprs = append(exprs, "a && !b || c", "!(a && b)", "go1.18", "ignore", "a&&b")
	}
	boiler := map[string]string{
		"absent":               "",
		"one line":             "// Copyright ACME\n",
		"one line no newline":  "// Copyright ACME",
		"many lines":           "// Copyright ACME\n// SPDX-License-Identifier: MIT\n//\n// third line\n",
		"many no newline":      "// Copyright ACME\n// SPDX-License-Identifier: MIT\n// last line without newline",
		"block comment":        "/*\nCopyright ACME\n  indented line\n*/\n",
		// a block comment whose lines begin like the clauses of a Go file (text that is looked for line-wise must not be found here)
		"block comment with lines like clauses": "/*\nCopyright ACME. This\npackage is distributed in the hope that it will be useful, see the\nimport notes. There is no\nfunc main in this file.\n*/\n",
		"trailing blank line":  "// Copyright ACME\n// second\n\n",
		"looks like directive": "// Copyright ACME\n// nolint: all\n//lint:file-ignore U1000 generated code\n",
		// lines that gofmt would re-indent if the header became the package's doc comment
		"indented lines":            "// Licensed under the Apache License, Version 2.0 (the \"License\");\n// you may not use this file except in compliance with the License.\n//\n//     http://www.apache.org/licenses/LICENSE-2.0\n//\n//   - a list item\n// Unless required by applicable law.\n",
		"indented lines no newline": "// Licensed under the Apache License, Version 2.0 (the \"License\");\n//\n//     http://www.apache.org/licenses/LICENSE-2.0\n//\n// Unless required by applicable law.",
	}
	{
		// far beyond any buffer size a reader might assume (about 20 KiB, 300 distinct lines)
		var b strings.Builder
		for i := 0; i < 300; i++ {
			fmt.Fprintf(&b, "// line %03d of a long licence text: %s\n", i, strings.TrimSpace(strings.Repeat("lorem ipsum ", 2+i%5)))
		}
		boiler["very long"] = b.String()
	}
	type cs struct {
		expr, bname, tmpl, fmtr string
		place                   string // "<level of mock-build-tags>/<level of boilerplate-file>", "" = both at top level
	}
	var cases []cs
	for _, e := range exprs {
		for _, b := range core.SortedKeys(boiler) {
			for _, t := range []string{"testify", "matryer"} {
				for _, f := range []string{"goimports", "gofmt", "noop"} {
					cases = append(cases, cs{e, b, t, f, ""})
				}
			}
		}
	}
	// the two settings written at different configuration levels (they travel in the template-data map, which is
	// merged key by key across levels): each must still take effect
	{
		pe, pb := []string{"a && b"}, []string{"many lines"}
		if !quick {
			pe, pb = exprs[1:], []string{"many lines", "one line no newline"}
		}
		for _, e := range pe {
			for _, b := range pb {
				for _, t := range []string{"testify", "matryer"} {
					// (the header is one per file and is rendered from the package's resolved template-data: interface-level
					// placement is not meaningful for these two keys and is not exercised)
					for _, lt := range []string{"top", "package"} {
						for _, lb := range []string{"top", "package"} {
							if lt == "top" && lb == "top" {
								continue
							}
							cases = append(cases, cs{e, b, t, "gofmt", lt + "/" + lb})
						}
					}
				}
			}
		}
	}
	var mu sync.Mutex
	done, listed := 0, 0
	outcomes := map[string]struct{}{}
	core.ParallelFor(len(cases), func(i int) {
		if c.Expired() {
			return
		}
		x := cases[i]
		id := fmt.Sprintf("expr=%q boilerplate=%s template=%s formatter=%s", x.expr, x.bname, x.tmpl, x.fmtr)
		td, tdPkg, tdIface := core.M{}, core.M{}, core.M{}
		tdTags, tdBoiler := td, td
		if x.place != "" {
			id += " levels(tags/boilerplate)=" + x.place
			lv := strings.Split(x.place, "/")
			at := map[string]core.M{"top": td, "package": tdPkg, "interface": tdIface}
			tdTags, tdBoiler = at[lv[0]], at[lv[1]]
			// an unrelated key at every level, so that every level has a map of its own to merge into
			td["unroll-variadic"], tdPkg["unroll-variadic"], tdIface["unroll-variadic"] = true, true, true
			if x.tmpl == "matryer" {
				delete(td, "unroll-variadic")
				delete(tdPkg, "unroll-variadic")
				delete(tdIface, "unroll-variadic")
				td["with-resets"], tdPkg["stub-impl"], tdIface["skip-ensure"] = true, true, true
			}
		}
		files := map[string]string{"p/p.go": "package p\n\ntype I interface{ M(a int) (string, error) }\n"}
		if x.bname != "absent" {
			files["boiler.txt"] = boiler[x.bname]
			tdBoiler["boilerplate-file"] = "boiler.txt"
		}
		if x.expr != "" {
			tdTags["mock-build-tags"] = x.expr
		}
		cfg := core.M{"template": x.tmpl, "formatter": x.fmtr, "log-level": "error", "dir": "{{.InterfaceDir}}", "pkgname": "p", "filename": "mocks_gen.go", "template-data": td,
			"packages": core.M{core.ModPath + "/p": core.M{"interfaces": core.M{"I": core.M{}}}}}
		if x.place != "" {
			cfg["packages"] = core.M{core.ModPath + "/p": core.M{"config": core.M{"template-data": tdPkg}, "interfaces": core.M{"I": core.M{"config": core.M{"template-data": tdIface}}}}}
		}
		files[".mockery.yml"] = core.YAML(cfg)
		m, err := c.NewModule(fmt.Sprintf("c17-%d", i), files)
		if err != nil {
			c.Harness("%v", err)
			return
		}
		defer m.Remove()
		r := c.RunMockery(m.Dir, nil)
		c.Ev.Add("transitions", 1)
		c.Ev.Distinct("states", id)
		txt, ok := m.Read("p/mocks_gen.go")
		replay := map[string]any{"case": id, "files": files, "exit": r.Exit, "stderr": firstN(r.Stderr, 400), "output_head": firstN(txt, 600)}
		bad := func(sig, format string, a ...any) {
			c.Report(sig+":"+id, fmt.Sprintf(format, a...), replay)
		}
		if r.Exit != 0 || !ok || r.Panicked() {
			bad("generate", "mockery failed (exit %d): %s", r.Exit, firstN(r.Stderr, 400))
			return
		}
		// split header / rest at the package clause
		lines := strings.Split(txt, "\n")
		pkgLine := c17pkgLine(txt)
		if pkgLine < 0 {
			bad("nopackage", "no package clause in the output")
			return
		}
		header := strings.Join(lines[:pkgLine], "\n") + "\n"
		// (1) marker before any non-comment text
		markerAt := -1
		inBlock := false
		for li, l := range lines[:pkgLine] {
			t := strings.TrimSpace(l)
			if c17marker.MatchString(l) && !inBlock && markerAt < 0 {
				markerAt = li
			}
			if inBlock {
				if strings.Contains(t, "*/") {
					inBlock = false
				}
				continue
			}
			if strings.HasPrefix(t, "/*") {
				if !strings.Contains(t, "*/") {
					inBlock = true
				}
				continue
			}
			if t != "" && !strings.HasPrefix(t, "//") {
				bad("noncomment-before-package", "non-comment text %q before the package clause", t)
				return
			}
		}
		if markerAt < 0 {
			bad("marker", "no line matching `^// Code generated .* DO NOT EDIT\\.$` before the package clause")
			return
		}
		// (2) boilerplate verbatim
		if bp := boiler[x.bname]; bp != "" {
			want := strings.TrimRight(bp, "\n")
			if !strings.Contains(header, want+"\n") {
				bad("boilerplate", "boilerplate text does not appear verbatim before the package clause; expected %q", want)
				return
			}
		}
		// (3) effectiveness of the build constraint, decided by the go command for every truth assignment
		if x.expr != "" {
			ex, err := constraint.Parse("//go:build " + x.expr)
			if err != nil {
				c.Harness("bad expression %q: %v", x.expr, err)
				return
			}
			tagset := map[string]bool{}
			ex.Eval(func(tag string) bool { tagset[tag] = true; return false })
			var tags []string
			for t := range tagset {
				tags = append(tags, t)
			}
			sort.Strings(tags)
			for mask := 0; mask < 1<<len(tags); mask++ {
				on := map[string]bool{}
				var flags []string
				goos := "linux"
				skip := false
				for ti, t := range tags {
					v := mask&(1<<ti) != 0
					switch {
					case t == "linux":
						if !v {
							goos = "darwin"
						}
						on["linux"] = v
					case strings.HasPrefix(t, "go1."):
						if !v {
							skip = true // release tags are always true
						}
						on[t] = true
					default:
						on[t] = v
						if v {
							flags = append(flags, t)
						}
					}
				}
				if skip {
					continue
				}
				want := ex.Eval(func(tag string) bool { return on[tag] })
				lr := core.Run(m.Dir, core.UserEnv("GOOS="+goos, "CGO_ENABLED=0"), time.Minute, "", "go", "list", "-tags", strings.Join(flags, ","), "-f", "{{.GoFiles}}|{{.IgnoredGoFiles}}", "./p")
				mu.Lock()
				listed++
				mu.Unlock()
				parts := strings.SplitN(strings.TrimSpace(lr.Stdout), "|", 2)
				if lr.Exit != 0 || len(parts) != 2 {
					bad("golist", "go list failed with tags %v: %s", flags, firstN(lr.Stderr, 300))
					return
				}
				got := strings.Contains(parts[0], "mocks_gen.go")
				if got != want {
					bad("constraint", "with tags %v (GOOS=%s) the go command %s the file, the expression %q evaluates to %v", flags, goos, map[bool]string{true: "includes", false: "excludes"}[got], x.expr, want)
					return
				}
			}
		} else if strings.Contains(header, "//go:build") || strings.Contains(header, "+build") {
			bad("spurious-constraint", "a build constraint appears although mock-build-tags is not set")
			return
		}
		mu.Lock()
		done++
		outcomes[fmt.Sprintf("%d lines before package", pkgLine)] = struct{}{}
		mu.Unlock()
		if i%61 == 0 {
			c.Ev.Sample(map[string]any{"case": id, "header": header})
		}
	})
	// ---- several source packages whose mocks share an output package NAME (different directories), each with its
	// own header settings at package level: every file carries exactly its own package's boilerplate and constraint
	for _, tmpl := range []string{"testify", "matryer"} {
		for _, fmtr := range []string{"gofmt", "noop"} {
			id := fmt.Sprintf("three source packages, one output package name, own header settings each, template=%s formatter=%s", tmpl, fmtr)
			type hp struct{ tags, boiler string }
			want := map[string]hp{"p1": {"alpha", "// Header of p1\n"}, "p2": {"beta && !alpha", "// Header of p2\n// second line\n"}, "p3": {"", ""}}
			files := map[string]string{}
			pkgs := core.M{}
			for name, h := range want {
				files[name+"/x.go"] = "package " + name + "\n\ntype I interface{ M(a int) error }\n"
				td := core.M{}
				if h.tags != "" {
					td["mock-build-tags"] = h.tags
					files["boiler_"+name+".txt"] = h.boiler
					td["boilerplate-file"] = "boiler_" + name + ".txt"
				}
				pkgs[core.ModPath+"/"+name] = core.M{"config": core.M{"template-data": td}, "interfaces": core.M{"I": core.M{}}}
			}
			cfg := core.M{"template": tmpl, "formatter": fmtr, "log-level": "error", "dir": "mocks/{{.SrcPackageName}}", "pkgname": "mocks", "filename": "mocks_gen.go", "packages": pkgs}
			files[".mockery.yml"] = core.YAML(cfg)
			m, err := c.NewModule("c17-multi-"+tmpl+fmtr, files)
			if err != nil {
				return err
			}
			r := c.RunMockery(m.Dir, nil)
			c.Ev.Add("transitions", 1)
			c.Ev.Distinct("states", id)
			replay := map[string]any{"case": id, "files": files, "exit": r.Exit, "stderr": firstN(r.Stderr, 400)}
			ok := r.Exit == 0
			if !ok {
				c.Report("generate:"+id, fmt.Sprintf("mockery failed (exit %d): %s", r.Exit, firstN(r.Stderr, 400)), replay)
			}
			for name, h := range want {
				if !ok {
					break
				}
				txt, _ := m.Read("mocks/" + name + "/mocks_gen.go")
				header, _, found := strings.Cut(txt, "\npackage ")
				if !found {
					c.Report("nopackage:"+id, "no package clause in mocks/"+name+"/mocks_gen.go", replay)
					ok = false
					break
				}
				var gotTags []string
				for _, l := range strings.Split(header, "\n") {
					if strings.HasPrefix(l, "//go:build ") {
						gotTags = append(gotTags, strings.TrimPrefix(l, "//go:build "))
					}
				}
				wantTags := []string{}
				if h.tags != "" {
					wantTags = []string{h.tags}
				}
				if strings.Join(gotTags, "|") != strings.Join(wantTags, "|") {
					c.Report("constraint-of-other-package:"+id, fmt.Sprintf("mocks of package %s carry the build constraint(s) %q, its own setting is %q", name, gotTags, h.tags), replay)
					ok = false
					break
				}
				for other, ho := range want {
					has := ho.boiler != "" && strings.Contains(header, strings.TrimRight(ho.boiler, "\n")+"\n")
					if has != (other == name && ho.boiler != "") && !(other != name && ho.boiler == "") {
						c.Report("boilerplate-of-other-package:"+id, fmt.Sprintf("mocks of package %s: boilerplate of package %s present=%v", name, other, has), replay)
						ok = false
					}
				}
			}
			m.Remove()
			if ok {
				done++
			}
			cases = append(cases, cs{})
		}
	}
	// ---- header settings written on a recursive package: they reach every package below it, whether that package is
	// discovered, has an entry of its own (with interfaces, or null), or is itself a recursive package nearer to the
	// leaves that overrides one of them
	for _, tmpl := range []string{"testify", "matryer"} {
		for _, fmtr := range []string{"goimports", "noop"} {
			id := fmt.Sprintf("header settings on a recursive package, sub-packages discovered / listed / null / nested recursive, template=%s formatter=%s", tmpl, fmtr)
			files := map[string]string{"boiler_r.txt": "// Header of r\n// second line\n", "boiler_mid.txt": "// Header of mid\n"}
			for _, d := range []string{"r", "r/plain", "r/listed", "r/null", "r/mid", "r/mid/deep", "r/mid/own"} {
				files[d+"/x.go"] = "package " + d[strings.LastIndex(d, "/")+1:] + "\n\ntype I interface{ M(a int) error }\n"
			}
			R := core.ModPath + "/r"
			pkgs := core.M{
				R:              core.M{"config": core.M{"recursive": true, "template-data": core.M{"mock-build-tags": "alpha", "boilerplate-file": "boiler_r.txt"}}},
				R + "/listed":  core.M{"interfaces": core.M{"I": core.M{}}},
				R + "/null":    nil,
				R + "/mid":     core.M{"config": core.M{"recursive": true, "template-data": core.M{"mock-build-tags": "beta && !alpha"}}},
				R + "/mid/own": core.M{"config": core.M{"template-data": core.M{"boilerplate-file": "boiler_mid.txt"}}},
			}
			type hp struct{ tags, boiler string }
			rb, mb := files["boiler_r.txt"], files["boiler_mid.txt"]
			want := map[string]hp{"r": {"alpha", rb}, "r/plain": {"alpha", rb}, "r/listed": {"alpha", rb}, "r/null": {"alpha", rb},
				"r/mid": {"beta && !alpha", rb}, "r/mid/deep": {"beta && !alpha", rb}, "r/mid/own": {"beta && !alpha", mb}}
			cfg := core.M{"template": tmpl, "formatter": fmtr, "all": true, "log-level": "error", "dir": "{{.InterfaceDir}}", "pkgname": "{{.SrcPackageName}}", "filename": "mocks_gen.go", "packages": pkgs}
			files[".mockery.yml"] = core.YAML(cfg)
			m, err := c.NewModule("c17-rec-"+tmpl+fmtr, files)
			if err != nil {
				return err
			}
			r := c.RunMockery(m.Dir, nil)
			c.Ev.Add("transitions", 1)
			c.Ev.Distinct("states", id)
			replay := map[string]any{"case": id, "files": files, "exit": r.Exit, "stderr": firstN(r.Stderr, 400)}
			ok := r.Exit == 0
			if !ok {
				c.Report("generate:"+id, fmt.Sprintf("mockery failed (exit %d): %s", r.Exit, firstN(r.Stderr, 400)), replay)
			}
			var dirs []string
			for d := range want {
				dirs = append(dirs, d)
			}
			sort.Strings(dirs)
			for _, d := range dirs {
				if !ok {
					break
				}
				h := want[d]
				txt, _ := m.Read(d + "/mocks_gen.go")
				header, _, found := strings.Cut(txt, "\npackage ")
				if !found {
					c.Report("nopackage:"+id, "no mock file with a package clause at "+d+"/mocks_gen.go", replay)
					ok = false
					break
				}
				var gotTags []string
				for _, l := range strings.Split(header, "\n") {
					if strings.HasPrefix(l, "//go:build ") {
						gotTags = append(gotTags, strings.TrimPrefix(l, "//go:build "))
					}
				}
				if strings.Join(gotTags, "|") != h.tags {
					c.Report("recursive-constraint:"+id, fmt.Sprintf("mocks of package %s carry the build constraint(s) %q; the setting of its nearest configured ancestor is %q", d, gotTags, h.tags), replay)
					ok = false
					break
				}
				if !strings.Contains(header+"\n", h.boiler) {
					c.Report("recursive-boilerplate:"+id, fmt.Sprintf("mocks of package %s lack the boilerplate %q that applies to them; header:\n%s", d, h.boiler, header), replay)
					ok = false
				}
			}
			m.Remove()
			if ok {
				done++
			}
			cases = append(cases, cs{})
		}
	}
	// ---- the header settings change between two runs over the same tree (force-file-write true): the second run's
	// file carries the second run's boilerplate and constraint, whatever the first run left there
	for _, tmpl := range []string{"testify", "matryer"} {
		for _, fmtr := range []string{"goimports", "noop"} {
			type hs struct{ tags, boiler string }
			seq := []hs{{"integration", "// First licence\n"}, {"e2e && !integration", "// Second licence\n// two lines\n"}, {"", ""}, {"unit", "// Third licence\n"}}
			id := fmt.Sprintf("header settings changed between runs over one tree, template=%s formatter=%s", tmpl, fmtr)
			files := map[string]string{"p/p.go": "package p\n\ntype I interface{ M(a int) (string, error) }\n"}
			m, err := c.NewModule("c17-rerun-"+tmpl+fmtr, files)
			if err != nil {
				return err
			}
			ok := true
			for step, h := range seq {
				td := core.M{}
				if h.tags != "" {
					td["mock-build-tags"] = h.tags
				}
				if h.boiler != "" {
					core.WriteTree(m.Dir, map[string]string{"boiler.txt": h.boiler})
					td["boilerplate-file"] = "boiler.txt"
				}
				cfg := core.M{"template": tmpl, "formatter": fmtr, "log-level": "error", "force-file-write": true, "dir": "{{.InterfaceDir}}", "pkgname": "p", "filename": "mocks_gen.go", "template-data": td,
					"packages": core.M{core.ModPath + "/p": core.M{"interfaces": core.M{"I": core.M{}}}}}
				core.WriteTree(m.Dir, map[string]string{".mockery.yml": core.YAML(cfg)})
				r := c.RunMockery(m.Dir, nil)
				c.Ev.Add("transitions", 1)
				txt, _ := m.Read("p/mocks_gen.go")
				header, _, _ := strings.Cut(txt, "\npackage ")
				replay := map[string]any{"case": id, "step": step, "settings_so_far": seq[:step+1], "header": header, "exit": r.Exit}
				if r.Exit != 0 {
					c.Report("rerun-generate:"+id, fmt.Sprintf("%s: run %d failed (exit %d): %s", id, step+1, r.Exit, firstN(r.Stderr, 300)), replay)
					ok = false
					break
				}
				var gotTags []string
				for _, l := range strings.Split(header, "\n") {
					if strings.HasPrefix(l, "//go:build ") {
						gotTags = append(gotTags, strings.TrimPrefix(l, "//go:build "))
					}
				}
				wantTags := ""
				if h.tags != "" {
					wantTags = h.tags
				}
				if strings.Join(gotTags, "|") != wantTags {
					c.Report("rerun-constraint:"+id, fmt.Sprintf("%s: after run %d the file carries the constraint(s) %q, the configuration of that run says %q", id, step+1, gotTags, h.tags), replay)
					ok = false
					break
				}
				for k, other := range seq {
					if other.boiler == "" {
						continue
					}
					has := strings.Contains(header, strings.TrimRight(other.boiler, "\n")+"\n")
					if has != (other.boiler == h.boiler) {
						c.Report("rerun-boilerplate:"+id, fmt.Sprintf("%s: after run %d the boilerplate of run %d is present=%v", id, step+1, k+1, has), replay)
						ok = false
					}
				}
				if !ok {
					break
				}
			}
			c.Ev.Distinct("states", id)
			m.Remove()
			if ok {
				done++
			}
			cases = append(cases, cs{})
		}
	}
	c.Ev.Set("evaluations", done+listed)
	c.Ev.Set("traces_validated_against_impl", done)
	c.Ev.Set("go_list_truth_assignments", listed)
	c.Ev.Set("distinct_nontrivial", done-len(cases)/len(exprs)/len(boiler)*1)
	c.Ev.Set("distinct_outcomes", len(outcomes))
	c.Ev.Set("cases", len(cases))
	c.Ev.Set("exhaustive", done == len(cases))
	c.Ev.Set("rule", "full product build-constraint expression x boilerplate text x template x formatter, plus the two settings written at every pair of levels {top, package} with an unrelated template-data key at each level, each generated by the real binary; three source packages whose mocks share one output package name with their own package-level header settings; four consecutive runs over one tree with changing header settings; (1) a generated-code marker line precedes every non-comment text and the package clause, (2) the boilerplate bytes appear verbatim before the package clause, (3) for every truth assignment of the expression's tags (GOOS switched for linux) `go list -tags` includes the file iff go/build/constraint evaluates the expression to true; distinct_nontrivial = cases with a constraint or a boilerplate")
	c.Ev.Assume("release tags (go1.x) are always true; cgo disabled")
	c.Ev.Assume("boilerplate-file and mock-build-tags describe the file header, which is rendered from the package's resolved template-data; writing them at interface level is not meaningful and not exercised")
	return nil
}

// c17pkgLine returns the 0-based index of the line holding the package clause, as the Go parser sees it (a line of a
// block comment that begins with the word "package" is not the clause); -1 if there is none. Falls back to a line scan
// when the text does not parse.
func c17pkgLine(txt string) int {
	fset := token.NewFileSet()
	if f, err := parser.ParseFile(fset, "out.go", txt, parser.PackageClauseOnly|parser.ParseComments); err == nil && f.Package.IsValid() {
		return fset.Position(f.Package).Line - 1
	}
	for li, l := range strings.Split(txt, "\n") {
		if strings.HasPrefix(l, "package ") {
			return li
		}
	}
	return -1
}
