package checks

import (
	"fmt"
	"os"
	"path/filepath"
	"regexp"
	"sort"
	"strconv"
	"strings"
	"sync"
	"time"

	"verif/engine/core"
	"verif/engine/gocheck"
	"verif/engine/shapes"
)

func init() { Registry["C01"] = C01 }

type genCombo struct {
	template  string
	data      core.M
	dataName  string
	formatter string
	placement string // inpkg-test | inpkg | exttest | separate
	extraCfg  core.M // additional root-level settings (custom templates)
	perFile   bool   // one output file (hence one import registry) per interface instead of one per batch
	// interface-level template-data, assigned round-robin over the interfaces of a run (a nil entry leaves the
	// interface without a config section): the levels may disagree with the root-level data and with each other
	ifaceData []core.M
}

func (g genCombo) String() string {
	pf := ""
	if g.perFile {
		pf = " file-per-interface"
	}
	return fmt.Sprintf("%s{%s} %s %s%s", g.template, g.dataName, g.formatter, g.placement, pf)
}

func (g genCombo) inPackage() bool { return g.placement == "inpkg-test" || g.placement == "inpkg" }

func genCombos(quick bool) []genCombo {
	var out []genCombo
	tdata := map[string][]struct {
		n string
		d core.M
	}{
		"testify": {{"", core.M{}}, {"unroll-variadic=true", core.M{"unroll-variadic": true}}, {"unroll-variadic=false", core.M{"unroll-variadic": false}}},
	}
	for i := 0; i < 8; i++ {
		d := core.M{}
		var n []string
		if i&1 != 0 {
			d["skip-ensure"] = true
			n = append(n, "skip-ensure")
		}
		if i&2 != 0 {
			d["stub-impl"] = true
			n = append(n, "stub-impl")
		}
		if i&4 != 0 {
			d["with-resets"] = true
			n = append(n, "with-resets")
		}
		tdata["matryer"] = append(tdata["matryer"], struct {
			n string
			d core.M
		}{strings.Join(n, "+"), d})
	}
	for _, t := range []string{"testify", "matryer"} {
		for _, td := range tdata[t] {
			for _, f := range []string{"goimports", "gofmt", "noop"} {
				for _, p := range []string{"inpkg-test", "inpkg", "exttest", "separate", "separate-samename"} {
					out = append(out, genCombo{template: t, data: td.d, dataName: td.n, formatter: f, placement: p})
				}
			}
		}
	}
	return out
}

const goModPlain = core.GoModText

func (g genCombo) config(names []string) core.M {
	cfg := core.M{"template": g.template, "formatter": g.formatter, "force-file-write": true, "log-level": "error", "template-data": g.data}
	switch g.placement {
	case "inpkg-test":
		cfg["dir"], cfg["pkgname"], cfg["filename"] = "{{.InterfaceDir}}", "src", "mocks_test.go"
	case "inpkg":
		cfg["dir"], cfg["pkgname"], cfg["filename"] = "{{.InterfaceDir}}", "src", "mocks_gen.go"
	case "exttest":
		cfg["dir"], cfg["pkgname"], cfg["filename"] = "{{.InterfaceDir}}", "src_test", "mocks_ext_test.go"
	case "separate":
		cfg["dir"], cfg["pkgname"], cfg["filename"] = "mocks", "mocks", "mocks.go"
	case "separate-samename":
		// another directory whose package happens to have the source package's name
		cfg["dir"], cfg["pkgname"], cfg["filename"] = "mocks/src", "src", "mocks.go"
	}
	if g.perFile {
		fn := cfg["filename"].(string)
		cfg["filename"] = strings.Replace(fn, "mocks", "mocks_{{.InterfaceName}}", 1)
	}
	for k, v := range g.extraCfg {
		cfg[k] = v
	}
	ifc := core.M{}
	for i, n := range names {
		ifc[n] = core.M{}
		// keyed by the case number, so that an interface keeps its data when a failing batch is bisected
		if d, err := strconv.Atoi(strings.TrimLeft(n, "C")); err == nil {
			i = d
		}
		if len(g.ifaceData) > 0 && g.ifaceData[i%len(g.ifaceData)] != nil {
			ifc[n] = core.M{"config": core.M{"template-data": g.ifaceData[i%len(g.ifaceData)]}}
		}
	}
	cfg["packages"] = core.M{core.ModPath + "/src": core.M{"interfaces": ifc}}
	return cfg
}

// levelSplitCombos: template-data given at root level and at interface level with different values, for all
// interfaces of the file or for every other one (so that one file holds interfaces with different effective data).
func levelSplitCombos(quick bool) []genCombo {
	var out []genCombo
	add := func(t, key string, rootOn, mixed bool, places, fmts []string) {
		on, off := any(true), any(false)
		if key == "unroll-variadic" { // its default is true
			on, off = false, true
		}
		g := genCombo{template: t}
		if rootOn {
			g.data, g.ifaceData = core.M{key: on}, []core.M{{key: off}}
			g.dataName = fmt.Sprintf("root %s=%v, interface %s=%v", key, on, key, off)
		} else {
			g.data, g.ifaceData = core.M{}, []core.M{{key: on}}
			g.dataName = fmt.Sprintf("interface %s=%v", key, on)
		}
		if mixed {
			g.ifaceData = append(g.ifaceData, nil)
			g.dataName += " on every other interface"
		}
		for _, pl := range places {
			for _, f := range fmts {
				g.placement, g.formatter = pl, f
				out = append(out, g)
			}
		}
	}
	allPlaces := []string{"inpkg-test", "inpkg", "exttest", "separate", "separate-samename"}
	fmts := []string{"gofmt"}
	if !quick {
		fmts = []string{"gofmt", "noop", "goimports"}
	}
	for _, rootOn := range []bool{false, true} {
		for _, mixed := range []bool{false, true} {
			add("matryer", "skip-ensure", rootOn, mixed, allPlaces, fmts)
			if quick && !(mixed && !rootOn) {
				continue
			}
			places := allPlaces
			if quick {
				places = []string{"inpkg-test", "separate"}
			}
			add("matryer", "stub-impl", rootOn, mixed, places, fmts)
			add("matryer", "with-resets", rootOn, mixed, places, fmts)
			add("testify", "unroll-variadic", rootOn, mixed, places, fmts)
		}
	}
	return out
}

func (g genCombo) outFile() string {
	switch g.placement {
	case "inpkg-test":
		return "src/mocks_test.go"
	case "inpkg":
		return "src/mocks_gen.go"
	case "exttest":
		return "src/mocks_ext_test.go"
	case "separate-samename":
		return "mocks/src/mocks.go"
	}
	return "mocks/mocks.go"
}

type genOutcome struct {
	exit     int
	stderr   string
	panicked bool
	errs     []gocheck.Err
	text     string // generated file
	dir      string
}

var seqGen struct {
	sync.Mutex
	n int
}

// genRun generates mocks for the given cases under a combo and type-checks the result.
func genRun(c *core.Ctx, g genCombo, cases []shapes.Case, gomod string, extra map[string]string, keep bool) (*genOutcome, *core.Module, error) {
	seqGen.Lock()
	seqGen.n++
	name := fmt.Sprintf("gen-%d", seqGen.n)
	seqGen.Unlock()
	files := map[string]string{"src/ifaces.go": shapes.Source(cases), ".mockery.yml": core.YAML(g.config(shapes.Names(cases)))}
	for k, v := range shapes.HelperFiles {
		files[k] = v
	}
	if gomod != "" {
		files["go.mod"] = gomod
	}
	for k, v := range extra {
		files[k] = v
	}
	m, err := c.NewModule(name, files)
	if err != nil {
		return nil, nil, err
	}
	t0 := time.Now()
	r := c.RunMockery(m.Dir, nil)
	t1 := time.Now()
	defer func() {
		if os.Getenv("VERIF_TIMING") != "" {
			fmt.Fprintf(os.Stderr, "TIMING %s cases=%d mockery=%.1fs check=%.1fs\n", g, len(cases), t1.Sub(t0).Seconds(), time.Since(t1).Seconds())
		}
	}()
	c.Ev.Add("transitions", 1)
	if core.ResourceFailure(r) {
		m.Remove()
		return nil, nil, errResources
	}
	o := &genOutcome{exit: r.Exit, stderr: firstN(r.Stderr, 1500), panicked: r.Panicked(), dir: m.Dir}
	o.text, _ = m.Read(g.outFile())
	if r.Exit == 0 {
		_, errs, lerr := gocheck.Load(m.Dir, core.UserEnv(), "", true, "./src/...", "./mocks/...")
		if lerr != nil {
			m.Remove()
			return nil, nil, lerr
		}
		for _, e := range errs {
			if strings.Contains(e.Msg, "signal: killed") || strings.Contains(e.Msg, "cannot allocate memory") {
				m.Remove()
				return nil, nil, errResources
			}
		}
		o.errs = errs
	}
	if !keep {
		m.Remove()
		return o, nil, nil
	}
	return o, m, nil
}

var errResources = fmt.Errorf("run given up for lack of resources (timeout or killed)")

var caseNameRe = regexp.MustCompile(`C\d{4}`)

// attribute maps compile errors to cases via the nearest preceding mention of
// a case name in the generated file. Unattributable errors are returned separately.
func attribute(o *genOutcome, outFile string) (map[string]gocheck.Err, []gocheck.Err) {
	lines := strings.Split(o.text, "\n")
	by := map[string]gocheck.Err{}
	var rest []gocheck.Err
	for _, e := range o.errs {
		// file-per-interface mode: the file name carries the case
		if n := caseNameRe.FindString(filepath.Base(e.File)); n != "" {
			if _, ok := by[n]; !ok {
				by[n] = e
			}
			continue
		}
		if e.File != outFile || e.Line <= 0 || e.Line > len(lines) {
			// an error elsewhere that names a case (e.g. redeclaration reported at the other site)
			if n := caseNameRe.FindString(e.Msg); n != "" {
				if _, ok := by[n]; !ok {
					by[n] = e
				}
				continue
			}
			rest = append(rest, e)
			continue
		}
		found := ""
		for i := e.Line - 1; i >= 0 && found == ""; i-- {
			found = caseNameRe.FindString(lines[i])
		}
		if found == "" {
			rest = append(rest, e)
			continue
		}
		if _, ok := by[found]; !ok {
			by[found] = e
		}
	}
	return by, rest
}

// genExplore runs one combo over the cases and returns caseName -> first failure signature.
// Failures that cannot be attributed by position are bisected (bounded by *budget runs).
func genExplore(c *core.Ctx, g genCombo, cases []shapes.Case, gomod string, extra map[string]string, budget *int) map[string]string {
	fails := map[string]string{}
	if len(cases) == 0 || *budget <= 0 {
		return fails
	}
	*budget--
	o, _, err := genRun(c, g, cases, gomod, extra, false)
	if err == errResources {
		c.Skip("%s (%d interfaces): %v", g, len(cases), err)
		return fails
	}
	if err != nil {
		c.Harness("%s: %v", g, err)
		return fails
	}
	whole := ""
	switch {
	case o.panicked:
		whole = "mockery crashed: " + panicSig(o.stderr)
	case o.exit != 0:
		whole = "mockery exit " + fmt.Sprint(o.exit) + ": " + gocheck.Signature(lastErrLine(o.stderr))
	}
	if whole == "" {
		by, rest := attribute(o, g.outFile())
		for n, e := range by {
			fails[n] = gocheck.Signature(e.Msg)
		}
		if len(rest) == 0 {
			return fails
		}
		whole = gocheck.Signature(rest[0].Msg)
		if len(by) > 0 {
			// retry without the attributed cases: the rest may be a consequence
			var remaining []shapes.Case
			for _, cs := range cases {
				if _, bad := by[cs.Name]; !bad {
					remaining = append(remaining, cs)
				}
			}
			for n, s := range genExplore(c, g, remaining, gomod, extra, budget) {
				fails[n] = s
			}
			return fails
		}
	}
	if len(cases) == 1 {
		fails[cases[0].Name] = whole
		return fails
	}
	mid := len(cases) / 2
	for _, half := range [][]shapes.Case{cases[:mid], cases[mid:]} {
		for n, s := range genExplore(c, g, half, gomod, extra, budget) {
			fails[n] = s
		}
	}
	if len(fails) == 0 {
		fails[cases[0].Name] = "only-in-combination (not minimised): " + whole
	}
	return fails
}

func lastErrLine(stderr string) string {
	ls := strings.Split(strings.TrimSpace(stderr), "\n")
	for i := len(ls) - 1; i >= 0; i-- {
		if strings.Contains(ls[i], "ERR") || strings.Contains(ls[i], "FTL") || strings.Contains(ls[i], "error") {
			l := ls[i]
			// strip timestamp
			if j := strings.Index(l, " ERR "); j >= 0 {
				l = l[j+5:]
			} else if j := strings.Index(l, " FTL "); j >= 0 {
				l = l[j+5:]
			}
			return regexp.MustCompile(`/tmp/[^ "]+`).ReplaceAllString(l, "<path>")
		}
	}
	if len(ls) > 0 {
		return ls[len(ls)-1]
	}
	return ""
}

func C01(c *core.Ctx) error {
	if err := c.BuildMockery(); err != nil {
		return err
	}
	quick := core.Quick(c.Tier)
	depth := 1
	if !quick {
		depth = 2
	}
	all := shapes.Corpus(shapes.Options{Depth: depth, Names: true, Forms: true, NamePairs: true})
	// the corpus itself must compile
	{
		m, err := c.NewModule("c01-corpus", mergeFiles(shapes.HelperFiles, map[string]string{"src/ifaces.go": shapes.Source(all)}))
		if err != nil {
			return err
		}
		_, errs, err := gocheck.Load(m.Dir, core.UserEnv(), "", true, "./...")
		m.Remove()
		if err != nil {
			return err
		}
		if len(errs) > 0 {
			return fmt.Errorf("generated corpus does not compile: %v", errs[0])
		}
	}
	byName := map[string]shapes.Case{}
	for _, cs := range all {
		byName[cs.Name] = cs
	}
	combos := genCombos(quick)
	// the same corpus with one output file per interface: every interface starts from an empty import registry
	for _, t := range []string{"testify", "matryer"} {
		for _, pl := range []string{"inpkg-test", "separate"} {
			combos = append(combos, genCombo{template: t, data: core.M{}, formatter: "gofmt", placement: pl, perFile: true})
		}
	}
	combos = append(combos, levelSplitCombos(quick)...)
	knownCase := map[string]bool{} // "<case id>|<template>"
	for _, k := range c.KnownKeys() {
		p := strings.SplitN(k, "|", 3)
		if len(p) >= 2 {
			knownCase[p[0]+"|"+p[1]] = true
		}
	}
	var mu sync.Mutex
	pairs := 0
	failingCases := map[string]bool{}
	core.ParallelFor(len(combos), func(i int) {
		if c.Expired() {
			return
		}
		g := combos[i]
		var cases []shapes.Case
		for _, cs := range all {
			if cs.InPkgOnly && !g.inPackage() {
				continue
			}
			cases = append(cases, cs)
		}
		// simplest first: the baseline interface alone; if that fails the combination is broken wholesale
		budget := 30
		fails := genExplore(c, g, all[:1], "", nil, &budget)
		if len(fails) == 0 {
			// inputs with a recorded finding are still generated, but in batches of their own so that they cannot
			// mask or poison anything else (those that break the whole file, like a package named mock, separately)
			var batch, quarantine, poison []shapes.Case
			for _, cs := range cases {
				switch {
				case g.dataName != "" && !shapes.Reduced(cs):
					// non-default template-data: reduced corpus
				case knownCase[cs.ID+"|"+g.template] && strings.Contains(cs.ID, "mockp."):
					poison = append(poison, cs)
				case knownCase[cs.ID+"|"+g.template]:
					quarantine = append(quarantine, cs)
				default:
					batch = append(batch, cs)
				}
			}
			// generated in chunks of at most 450 interfaces (one output file per chunk)
			for lo := 0; lo < len(batch); lo += 450 {
				hi := lo + 450
				if hi > len(batch) {
					hi = len(batch)
				}
				b := 30
				for n, sgn := range genExplore(c, g, batch[lo:hi], "", nil, &b) {
					fails[n] = sgn
				}
			}
			if g.dataName == "" {
				for _, q := range [][]shapes.Case{quarantine, poison} {
					b2 := 3
					for n, s := range genExplore(c, g, q, "", nil, &b2) {
						fails[n] = s
					}
				}
			} else {
				quarantine, poison = nil, nil
			}
			isolated := poison
			cases = append(append(batch, quarantine...), isolated...)
		}
		mu.Lock()
		pairs += len(cases)
		mu.Unlock()
		names := make([]string, 0, len(fails))
		for n := range fails {
			names = append(names, n)
		}
		sort.Strings(names)
		for _, n := range names {
			cs := byName[n]
			mu.Lock()
			failingCases[cs.ID] = true
			mu.Unlock()
			key := fmt.Sprintf("%s|%s|%s", cs.ID, g.template, fails[n])
			c.Report(key, fmt.Sprintf("[%s] interface %q: generated file is not valid Go in its destination package: %s\n%s", g, cs.ID, fails[n], cs.Decl),
				map[string]any{"combo": g.String(), "case": cs.ID, "decl": cs.Decl, "config": core.YAML(g.config([]string{cs.Name})), "error": fails[n]})
		}
		if i%17 == 0 {
			c.Ev.Sample(map[string]any{"combo": g.String(), "interfaces": len(cases), "failing": len(fails), "example_case": all[(i*7)%len(all)].ID})
		}
	})
	// ---- go.mod spellings x placement (feeds the in-package decision and the destination import path)
	spellings := map[string]string{
		"plain":            core.GoModText,
		"tab separator":    strings.Replace(core.GoModText, "module example.com/m", "module\texample.com/m", 1),
		"double space":     strings.Replace(core.GoModText, "module example.com/m", "module  example.com/m", 1),
		"quoted":           strings.Replace(core.GoModText, "module example.com/m", "module \"example.com/m\"", 1),
		"trailing comment": strings.Replace(core.GoModText, "module example.com/m", "module example.com/m // the module", 1),
		"block form":       strings.Replace(core.GoModText, "module example.com/m", "module (\n\texample.com/m\n)", 1),
		"leading comment":  "// module declaration follows; module is the first word of no line above\n" + core.GoModText,
		"comment mentions": "// modules are great\n//module fake.example/x\n" + core.GoModText,
		"crlf":             strings.ReplaceAll(core.GoModText, "\n", "\r\n"),
		"no trailing newline, module last": "go 1.23\n\nrequire github.com/stretchr/testify v1.10.0\n\nrequire (\n\tgithub.com/davecgh/go-spew v1.1.1 // indirect\n\tgithub.com/pmezard/go-difflib v1.0.0 // indirect\n\tgithub.com/stretchr/objx v0.5.2 // indirect\n\tgopkg.in/yaml.v3 v3.0.1 // indirect\n)\n\nmodule example.com/m",
	}
	small := shapes.Corpus(shapes.Options{Depth: 0, Forms: false})
	var smallSel []shapes.Case
	for _, cs := range small {
		switch cs.ID {
		case "baseline", "shape:LT", "shape:dep.T", "shape:T", "shape:io.Reader":
			smallSel = append(smallSel, cs)
		}
	}
	type gm struct {
		name string
		g    genCombo
	}
	var gms []gm
	for _, sp := range core.SortedKeys(spellings) {
		for _, t := range []string{"testify", "matryer"} {
			for _, p := range []string{"inpkg-test", "inpkg", "exttest", "separate"} {
				gms = append(gms, gm{sp, genCombo{template: t, data: core.M{}, formatter: "gofmt", placement: p}})
			}
		}
	}
	core.ParallelFor(len(gms), func(i int) {
		if c.Expired() {
			return
		}
		x := gms[i]
		budget := 12
		fails := genExplore(c, x.g, smallSel, spellings[x.name], nil, &budget)
		mu.Lock()
		pairs += len(smallSel)
		mu.Unlock()
		for n, sig := range fails {
			cs := smallSel[0]
			for _, y := range smallSel {
				if y.Name == n {
					cs = y
				}
			}
			// report once per spelling/placement class, with the simplest failing case
			key := fmt.Sprintf("gomod:%s|%s|%s|%s", x.name, x.g.template, map[bool]string{true: "in-package", false: "out-of-package"}[x.g.inPackage()], sig)
			c.Report(key, fmt.Sprintf("[%s, go.mod module directive spelled %q] interface %q: %s", x.g, x.name, cs.ID, sig),
				map[string]any{"combo": x.g.String(), "gomod": spellings[x.name], "case": cs.ID, "decl": cs.Decl, "error": sig})
			break
		}
	})
	// ---- the mocked package is the MODULE ROOT package (its import path is the module path itself, its directory
	// the go.mod directory): all placements, both templates, signatures naming types of that package
	{
		rootSrc := "package m\n\nimport \"example.com/m/dep\"\n\ntype RT struct{ N int }\n\ntype RG[T any] struct{ V T }\n\ntype RootI interface {\n\tM(t RT, o *RT, g RG[dep.T]) (RT, error)\n\tN(d dep.T) map[RT][]dep.T\n}\n\ntype RootPlain interface{ P(a int) string }\n"
		type rp struct{ name, dir, pkgname, filename, check string }
		places := []rp{
			{"in-package test file", "{{.InterfaceDir}}", "m", "mocks_test.go", "."}, {"in-package file", "{{.InterfaceDir}}", "m", "mocks_gen.go", "."},
			{"external test package", "{{.InterfaceDir}}", "m_test", "mocks_ext_test.go", "."}, {"separate package", "mocks", "mocks", "mocks.go", "./mocks"},
		}
		type rjob struct {
			t, f string
			p    rp
		}
		var rjobs []rjob
		for _, t := range []string{"testify", "matryer"} {
			for _, f := range []string{"gofmt", "noop"} {
				for _, pl := range places {
					rjobs = append(rjobs, rjob{t, f, pl})
				}
			}
		}
		core.ParallelFor(len(rjobs), func(i int) {
			j := rjobs[i]
			id := fmt.Sprintf("module root package|%s|%s %s", j.t, j.f, j.p.name)
			cfg := core.M{"template": j.t, "formatter": j.f, "force-file-write": true, "log-level": "error", "all": true, "dir": j.p.dir, "pkgname": j.p.pkgname, "filename": j.p.filename,
				"packages": core.M{core.ModPath: core.M{}}}
			m, err := c.NewModule(fmt.Sprintf("c01-root-%d", i), map[string]string{"root.go": rootSrc, "dep/dep.go": shapes.HelperFiles["dep/dep.go"], ".mockery.yml": core.YAML(cfg)})
			if err != nil {
				c.Harness("%v", err)
				return
			}
			defer m.Remove()
			r := c.RunMockery(m.Dir, nil)
			c.Ev.Add("transitions", 1)
			if core.ResourceFailure(r) {
				c.Skip("%s: run gave up for lack of resources", id)
				return
			}
			replay := map[string]any{"case": id, "source": rootSrc, "config": core.YAML(cfg)}
			if r.Exit != 0 {
				c.Report(id+"|generate", fmt.Sprintf("[%s] mockery fails on the module's root package (exit %d): %s", id, r.Exit, firstN(lastErrLine(r.Stderr), 300)), replay)
				return
			}
			_, errs, lerr := gocheck.Load(m.Dir, core.UserEnv(), "", true, j.p.check)
			if lerr != nil {
				c.Harness("%v", lerr)
				return
			}
			if len(errs) > 0 {
				c.Report(id+"|"+gocheck.Signature(errs[0].Msg), fmt.Sprintf("[%s] the mocks of the module's root package are not valid Go in their destination package: %s", id, errs[0]), replay)
				return
			}
			mu.Lock()
			pairs += 2
			mu.Unlock()
		})
	}
	c.Ev.Set("states", pairs)
	c.Ev.Set("evaluations", pairs)
	c.Ev.Set("traces_validated_against_impl", pairs)
	c.Ev.Set("distinct_nontrivial", len(all)*2)
	c.Ev.Set("corpus_interfaces", len(all))
	c.Ev.Set("combos", len(combos))
	c.Ev.Set("gomod_spellings", len(spellings))
	c.Ev.Set("failing_case_ids", core.SortedKeys(failingCases))
	c.Ev.Set("grammar_depth", depth)
	c.Ev.Set("exhaustive", !c.Expired())
	c.Ev.Set("rule", "corpus = one interface per case: every type shape of the grammar (24 atoms x 16 constructors to the stated depth) in parameter, result, variadic and mixed position; signature forms; interface forms (embedding, generics with every constraint kind, instantiated generic named types); every identifier of the alphabets (template locals, predeclared names, import names, case twins, non-ASCII) as parameter, result and type-parameter name; identifier x type pairs. Full product template x template-data x formatter x placement (165 combinations; reduced corpus for non-default template-data) plus 4 combinations with one output file per interface (fresh import registry per interface), each one mockery run over the whole corpus followed by go/packages type checking of the destination package with tests; failures attributed by position, otherwise by bisection; plus 11 go.mod spellings x 2 templates x 4 placements; plus the module's root package as the mocked package (2 templates x gofmt/noop x 4 placements). states = (combination, interface) pairs decided; distinct_nontrivial = interfaces x templates")
	c.Ev.Assume("interfaces whose method names collide with the mock's own API and unexported source types in out-of-package placements are outside the guarantee and not generated")
	return nil
}

func mergeFiles(ms ...map[string]string) map[string]string {
	out := map[string]string{}
	for _, m := range ms {
		for k, v := range m {
			out[k] = v
		}
	}
	return out
}
