package checks

import (
	"fmt"
	"path/filepath"
	"sort"
	"strings"
	"sync"

	"verif/engine/core"
)

// Composition ("no leak between siblings", decided differentially): a configuration with several packages (or several
// listed interfaces of one package, one output file each), each carrying its own settings, must produce exactly the disjoint union of what each package
// produces when it is the only one configured -- byte for byte, under the sorted and the reversed iteration
// order of every map in mockery. Nothing here needs a hand-written expectation: whatever one package's files
// look like alone is what they must look like next to any sibling.

type c08profile struct {
	name  string
	files map[string]string // sources, relative to the module root (disjoint between profiles)
	pkgs  func(t c08compEnv) core.M
}

type c08compEnv struct {
	strict, strictSchema2 string // file:// template with a strict schema beside it; a second, different schema file
	boilerA, boilerB       string
}

func c08profiles() []c08profile {
	P := func(s string) string { return core.ModPath + "/" + s }
	src := func(pkg, body string, imports ...string) string {
		var b strings.Builder
		fmt.Fprintf(&b, "package %s\n\n", pkg)
		if len(imports) > 0 {
			b.WriteString("import (\n")
			for _, im := range imports {
				fmt.Fprintf(&b, "\t%s\n", im)
			}
			b.WriteString(")\n\n")
		}
		b.WriteString(body)
		return b.String()
	}
	tree := func(root string) map[string]string {
		m := map[string]string{root + "/x.go": src(filepath.Base(root), "type I interface{ M() }\n")}
		for _, s := range []string{"gen", "tmp", "ok"} {
			m[root+"/"+s+"/x.go"] = src(s, "type I interface{ M() }\n")
		}
		return m
	}
	return []c08profile{
		{"testify in-package, imports net/url, template-schema named explicitly (ignored for built-in templates)", map[string]string{"p1/x.go": src("p1", "type Fetcher interface{ Fetch(u *url.URL) error }\n", `"net/url"`)},
			func(t c08compEnv) core.M {
				return core.M{P("p1"): core.M{"config": core.M{"all": true, "template": "testify", "template-schema": "literal.schema.json", "formatter": "noop", "dir": "{{.InterfaceDir}}", "filename": "mocks_gen_test.go", "template-data": core.M{"unroll-variadic": true}}}}
			}},
		{"package p2, one file per interface: only Getter (parameter named url)", map[string]string{"p2/x.go": src("p2", "type Getter interface{ Get(url string, v ...int) string }\n\ntype Resolver interface{ Resolve(u *url.URL, rand int) error }\n\ntype Roller interface{ Roll(r *rand.Rand) url.Values }\n", `"math/rand"`, `"net/url"`)},
			func(t c08compEnv) core.M {
				return core.M{P("p2"): core.M{"config": core.M{"template": "testify", "formatter": "noop", "dir": "{{.InterfaceDir}}", "filename": "mock_{{.InterfaceName}}_test.go", "template-data": core.M{"unroll-variadic": false}}, "interfaces": core.M{"Getter": core.M{}}}}
			}},
		{"package p2, one file per interface: only Resolver (imports net/url, parameter named rand)", nil,
			func(t c08compEnv) core.M {
				return core.M{P("p2"): core.M{"config": core.M{"template": "testify", "formatter": "noop", "dir": "{{.InterfaceDir}}", "filename": "mock_{{.InterfaceName}}_test.go", "template-data": core.M{"unroll-variadic": false}}, "interfaces": core.M{"Resolver": core.M{}}}}
			}},
		{"package p2, one file per interface: only Roller (imports math/rand and net/url)", nil,
			func(t c08compEnv) core.M {
				return core.M{P("p2"): core.M{"config": core.M{"template": "testify", "formatter": "noop", "dir": "{{.InterfaceDir}}", "filename": "mock_{{.InterfaceName}}_test.go", "template-data": core.M{"unroll-variadic": false}}, "interfaces": core.M{"Roller": core.M{}}}}
			}},
		{"matryer into mocks/p3 (package mocks), skip-ensure + with-resets, header A", map[string]string{"p3/x.go": src("p3", "type S interface{ A(x int) error }\n")},
			func(t c08compEnv) core.M {
				return core.M{P("p3"): core.M{"config": core.M{"all": true, "template": "matryer", "template-schema": "literal.schema.json", "formatter": "gofmt", "dir": "mocks/{{.SrcPackageName}}", "pkgname": "mocks", "filename": "mocks.go",
					"template-data": core.M{"skip-ensure": true, "with-resets": true, "boilerplate-file": t.boilerA, "mock-build-tags": "alpha"}}}}
			}},
		{"matryer into mocks/p4 (package mocks), stub-impl, header B", map[string]string{"p4/x.go": src("p4", "type S interface{ A(x int) error }\n")},
			func(t c08compEnv) core.M {
				return core.M{P("p4"): core.M{"config": core.M{"all": true, "template": "matryer", "formatter": "noop", "dir": "mocks/{{.SrcPackageName}}", "pkgname": "mocks", "filename": "mocks.go",
					"template-data": core.M{"stub-impl": true, "boilerplate-file": t.boilerB, "mock-build-tags": "beta && !alpha"}}}}
			}},
		{"testify into mocks/p5 (package mocks), no header, goimports", map[string]string{"p5/x.go": src("p5", "type S interface{ A(r *rand.Rand) error }\n", `"math/rand"`)},
			func(t c08compEnv) core.M {
				return core.M{P("p5"): core.M{"config": core.M{"all": true, "template": "testify", "formatter": "goimports", "dir": "mocks/{{.SrcPackageName}}", "pkgname": "mocks", "filename": "mocks.go"}}}
			}},
		{"custom template, strict schema beside it, conforming data", map[string]string{"p6/x.go": src("p6", "type S interface{ A() }\n")},
			func(t c08compEnv) core.M {
				return core.M{P("p6"): core.M{"config": core.M{"all": true, "template": t.strict, "formatter": "noop", "dir": "{{.InterfaceDir}}", "filename": "mocks_gen_test.go", "template-data": core.M{"ok": true}}}}
			}},
		{"same custom template, validation switched off, data outside the schema", map[string]string{"p7/x.go": src("p7", "type S interface{ A() }\n")},
			func(t c08compEnv) core.M {
				return core.M{P("p7"): core.M{"config": core.M{"all": true, "template": t.strict, "formatter": "noop", "dir": "{{.InterfaceDir}}", "filename": "mocks_gen_test.go", "require-template-schema-exists": false, "template-data": core.M{"free": "form"}}}}
			}},
		{"same custom template, another schema named explicitly", map[string]string{"p8/x.go": src("p8", "type S interface{ A() }\n")},
			func(t c08compEnv) core.M {
				return core.M{P("p8"): core.M{"config": core.M{"all": true, "template": t.strict, "template-schema": t.strictSchema2, "formatter": "noop", "dir": "{{.InterfaceDir}}", "filename": "mocks_gen_test.go", "template-data": core.M{"other": 1}}}}
			}},
		{"replace-type rt1.R -> rt2.R2", map[string]string{"p9/x.go": src("p9", "type S interface{ A(r rt1.R, i rt1.RI) (rt1.R, rt1.RI) }\n", `"example.com/m/rt1"`)},
			func(t c08compEnv) core.M {
				return core.M{P("p9"): core.M{"config": core.M{"all": true, "template": "testify", "formatter": "gofmt", "dir": "{{.InterfaceDir}}", "filename": "mocks_gen_test.go",
					"replace-type": core.M{P("rt1"): core.M{"R": core.M{"pkg-path": P("rt2"), "type-name": "R2"}}}}}}
			}},
		{"replace-type rt1.RI -> rt2.RI2 and rt1.R -> rt2.A2", map[string]string{"p10/x.go": src("p10", "type S interface{ A(r rt1.R, i rt1.RI) (rt1.R, rt1.RI) }\n", `"example.com/m/rt1"`)},
			func(t c08compEnv) core.M {
				return core.M{P("p10"): core.M{"config": core.M{"all": true, "template": "matryer", "formatter": "gofmt", "dir": "{{.InterfaceDir}}", "filename": "mocks_gen_test.go", "template-data": core.M{"skip-ensure": true},
					"replace-type": core.M{P("rt1"): core.M{"RI": core.M{"pkg-path": P("rt2"), "type-name": "RI2"}, "R": core.M{"pkg-path": P("rt2"), "type-name": "A2"}}}}}}
			}},
		{"recursive, sub-packages ending in gen excluded", tree("t1"),
			func(t c08compEnv) core.M {
				return core.M{P("t1"): core.M{"config": core.M{"all": true, "recursive": true, "exclude-subpkg-regex": []any{"gen$"}, "template": "testify", "formatter": "noop", "dir": "{{.InterfaceDir}}", "filename": "mocks_gen_test.go", "structname": "T1{{.InterfaceName}}"}}}
			}},
		{"recursive, sub-packages ending in tmp excluded", tree("t2"),
			func(t c08compEnv) core.M {
				return core.M{P("t2"): core.M{"config": core.M{"all": true, "recursive": true, "exclude-subpkg-regex": []any{"tmp$"}, "template": "matryer", "formatter": "noop", "dir": "{{.InterfaceDir}}", "filename": "mocks_gen_test.go", "template-data": core.M{"skip-ensure": true}}}}
			}},
		{"selection by regexes, templated names", map[string]string{"p13/x.go": src("p13", "type Exp interface{ M() }\n\ntype unexp interface{ m() }\n\ntype Other interface{ O() }\n\nvar _ unexp\n")},
			func(t c08compEnv) core.M {
				return core.M{P("p13"): core.M{"config": core.M{"include-interface-regex": "xp", "exclude-interface-regex": "^un", "template": "testify", "formatter": "noop", "dir": "{{.InterfaceDir}}/{{.InterfaceName | lower}}", "pkgname": "pk_{{.SrcPackageName}}", "filename": "{{.StructName}}.go", "structname": "{{.Mock}}Of{{.InterfaceName}}"}}}
			}},
		{"two source packages of one name (x/v1, y/v1), listed interfaces with configs entries", map[string]string{"x/v1/t.go": src("v1", "type T interface{ M(t T2) }\n\ntype T2 struct{}\n"), "y/v1/t.go": src("v1", "type T interface{ N(u T2) }\n\ntype T2 struct{}\n")},
			func(t c08compEnv) core.M {
				return core.M{
					P("x/v1"): core.M{"config": core.M{"template": "testify", "formatter": "noop", "dir": "{{.InterfaceDir}}", "filename": "mocks_gen_test.go"}, "interfaces": core.M{"T": core.M{"configs": []any{core.M{"structname": "XA"}, core.M{"structname": "XB", "template-data": core.M{"unroll-variadic": false}}}}}},
					P("y/v1"): core.M{"config": core.M{"template": "matryer", "formatter": "noop", "dir": "{{.InterfaceDir}}", "filename": "mocks_gen_test.go"}, "interfaces": core.M{"T": core.M{"config": core.M{"structname": "YT"}}}},
				}
			}},
	}
}

// c08compSetup writes the custom template and schema files the profiles refer to and returns their environment
// and the source files common to all profiles.
func c08compSetup(tdir string) (c08compEnv, map[string]string) {
	core.WriteTree(tdir, map[string]string{
		"strict/probe.templ": core.ProbeTemplate, "strict/probe.templ.schema.json": `{"type":"object","additionalProperties":false,"properties":{"ok":{"type":"boolean"}}}`,
		"schemas/second.json": `{"type":"object","additionalProperties":false,"required":["other"],"properties":{"other":{"type":"integer"}}}`,
	})
	env := c08compEnv{strict: "file://" + filepath.Join(tdir, "strict/probe.templ"), strictSchema2: "file://" + filepath.Join(tdir, "schemas/second.json"), boilerA: "boiler_a.txt", boilerB: "boiler_b.txt"}
	common := map[string]string{
		"boiler_a.txt": "// Header A\n// second line of A\n", "boiler_b.txt": "// Header B\n",
		"rt1/rt1.go": "package rt1\n\ntype R struct{ N int }\n\ntype RI interface{ Foo() int }\n",
		"rt2/rt2.go": "package rt2\n\ntype R2 struct{ N int }\n\ntype A2 = R2\n\ntype RI2 interface{ Foo() int }\n",
	}
	return env, common
}

// c08compConfig merges the package entries of the given profiles (several profiles of one source package: their
// interface lists are united) into one configuration.
func c08compConfig(profs []c08profile, set []int, env c08compEnv) core.M {
	pkgs := core.M{}
	for _, i := range set {
		for k, v := range profs[i].pkgs(env) {
			if prev, ok := pkgs[k].(core.M); ok {
				merged := core.M{}
				for n, x := range prev["interfaces"].(core.M) {
					merged[n] = x
				}
				for n, x := range v.(core.M)["interfaces"].(core.M) {
					merged[n] = x
				}
				pkgs[k] = core.M{"config": prev["config"], "interfaces": merged}
				continue
			}
			pkgs[k] = v
		}
	}
	return core.M{"log-level": "error", "force-file-write": true, "packages": pkgs}
}

// c08AllProfiles is the configuration with every profile at once plus all source files: a rich multi-package
// scenario that C06 explores under controlled map orders and re-runs.
func c08AllProfiles(tdir string) (map[string]string, core.M) {
	env, common := c08compSetup(tdir)
	profs := c08profiles()
	files := map[string]string{}
	for k, v := range common {
		files[k] = v
	}
	all := make([]int, len(profs))
	for i, p := range profs {
		all[i] = i
		for k, v := range p.files {
			files[k] = v
		}
	}
	return files, c08compConfig(profs, all, env)
}

func c08composition(c *core.Ctx, quick bool) (runs, agreed int, err error) {
	bin, _, err := buildMO(c)
	if err != nil {
		return 0, 0, err
	}
	env, common := c08compSetup(filepath.Join(c.Scratch, "c08comp"))
	profs := c08profiles()
	type outcome struct {
		exit  int
		files map[string]string // added path -> content hash
		err   string
	}
	var seq struct {
		sync.Mutex
		n int
	}
	generate := func(set []int, reverse bool) (outcome, error) {
		files := map[string]string{}
		for k, v := range common {
			files[k] = v
		}
		for _, i := range set {
			for k, v := range profs[i].files {
				files[k] = v
			}
		}
		// all profiles' sources are always present (so that only the configuration differs between the runs)
		for _, p := range profs {
			for k, v := range p.files {
				files[k] = v
			}
		}
		files[".mockery.yml"] = core.YAML(c08compConfig(profs, set, env))
		seq.Lock()
		seq.n++
		name := fmt.Sprintf("c08comp-%d", seq.n)
		seq.Unlock()
		m, err := c.NewModule(name, files)
		if err != nil {
			return outcome{}, err
		}
		defer m.Remove()
		before := core.Snapshot(m.Dir)
		var extra []string
		if reverse {
			extra = []string{"VERIF_MO_REVERSE=1"}
		}
		r := moRun(c, bin, m.Dir, nil, extra).Res
		c.Ev.Add("transitions", 1)
		if core.ResourceFailure(r) {
			return outcome{}, errResources
		}
		after := core.Snapshot(m.Dir)
		added, removed, changed := core.DiffSnapshots(before, after)
		o := outcome{exit: r.Exit, files: map[string]string{}, err: firstN(lastErrLine(r.Stderr), 300)}
		if r.Panicked() {
			o.exit = -1
			o.err = "crash: " + panicSig(r.Stderr)
		}
		for _, a := range added {
			if after[a] != "dir" {
				o.files[a] = after[a]
			}
		}
		for _, x := range append(removed, changed...) {
			o.files["!touched:"+x] = "x"
		}
		return o, nil
	}
	// singles
	singles := make([]outcome, len(profs))
	var herr error
	var mu sync.Mutex
	core.ParallelFor(len(profs), func(i int) {
		o, err := generate([]int{i}, false)
		mu.Lock()
		defer mu.Unlock()
		if err != nil {
			herr = err
			return
		}
		singles[i] = o
	})
	if herr != nil {
		if herr == errResources {
			c.Skip("composition: single-package runs gave up for lack of resources")
			return 0, 0, nil
		}
		return 0, 0, herr
	}
	for i, o := range singles {
		if o.exit != 0 || len(o.files) == 0 {
			// the profile alone must be a valid configuration: otherwise the harness is wrong, not mockery
			return 0, 0, fmt.Errorf("composition profile %q alone: exit %d, %d files: %s", profs[i].name, o.exit, len(o.files), o.err)
		}
	}
	var sets [][]int
	for i := range profs {
		for j := i + 1; j < len(profs); j++ {
			sets = append(sets, []int{i, j})
		}
	}
	if !quick {
		for i := range profs {
			for j := i + 1; j < len(profs); j++ {
				for k := j + 1; k < len(profs); k++ {
					sets = append(sets, []int{i, j, k})
				}
			}
		}
	}
	all := make([]int, len(profs))
	for i := range all {
		all[i] = i
	}
	sets = append(sets, all)
	type job struct {
		set     []int
		reverse bool
	}
	var jobs []job
	for _, s := range sets {
		jobs = append(jobs, job{s, false}, job{s, true})
	}
	core.ParallelFor(len(jobs), func(ji int) {
		if c.Expired() {
			return
		}
		j := jobs[ji]
		o, err := generate(j.set, j.reverse)
		if err == errResources {
			c.Skip("composition %v: run gave up for lack of resources", j.set)
			return
		}
		if err != nil {
			c.Harness("%v", err)
			return
		}
		var names []string
		want := map[string]string{}
		owner := map[string]string{}
		for _, i := range j.set {
			names = append(names, profs[i].name)
			for f, h := range singles[i].files {
				want[f] = h
				owner[f] = profs[i].name
			}
		}
		order := "sorted"
		if j.reverse {
			order = "reversed"
		}
		id := fmt.Sprintf("composition {%s} map order %s", strings.Join(names, " + "), order)
		mu.Lock()
		runs++
		mu.Unlock()
		c.Ev.Distinct("states", id)
		replay := map[string]any{"scenario": id, "profiles": names, "map_order": order, "how": "generate each profile alone and together (instrumented binary, VERIF_MO_REVERSE=1 for the reversed order); compare the added files"}
		if o.exit != 0 {
			c.Report("composition-exit:"+id, fmt.Sprintf("%s: every package alone is generated successfully, together mockery exits %d: %s", id, o.exit, o.err), replay)
			return
		}
		var diffs []string
		for f, h := range want {
			g, ok := o.files[f]
			switch {
			case !ok:
				diffs = append(diffs, fmt.Sprintf("%s (of %q) is missing", f, owner[f]))
			case g != h:
				diffs = append(diffs, fmt.Sprintf("%s (of %q) differs from what that package produces alone", f, owner[f]))
			}
		}
		for f := range o.files {
			if _, ok := want[f]; !ok {
				diffs = append(diffs, fmt.Sprintf("%s appears only in the combined run", f))
			}
		}
		if len(diffs) > 0 {
			sort.Strings(diffs)
			replay["differences"] = diffs
			c.Report("composition:"+id, fmt.Sprintf("%s: output is not the union of what each package produces alone: %s", id, strings.Join(firstStrings(diffs, 6), "; ")), replay)
			return
		}
		mu.Lock()
		agreed++
		mu.Unlock()
	})
	return runs, agreed, nil
}

func firstStrings(s []string, n int) []string {
	if len(s) > n {
		return append(append([]string{}, s[:n]...), fmt.Sprintf("... (%d more)", len(s)-n))
	}
	return s
}

// Level equivalence (differential): with one package, one interface and one configs entry, a setting written at
// the top level, on the package, on the interface or on the configs entry is the most specific setting for that
// mock in all four cases, so the generated file must be byte-identical. Uses the real built-in templates and
// their own template-data keys, replace-type and the per-mock / per-file parameters.
func c08levelEquivalence(c *core.Ctx) (runs, agreed int) {
	P := core.ModPath + "/p"
	files := map[string]string{
		"p/x.go":     "package p\n\nimport \"example.com/m/rt1\"\n\ntype S interface {\n\tA(r rt1.R, v ...int) (rt1.R, error)\n\tB() rt1.RI\n\tC(s string)\n}\n",
		"rt1/rt1.go": "package rt1\n\ntype R struct{ N int }\n\ntype RI interface{ Foo() int }\n",
		"rt2/rt2.go": "package rt2\n\ntype R2 struct{ N int }\n\ntype RI2 interface{ Foo() int }\n",
	}
	type setting struct {
		name string
		tmpl string // "" = both
		key  string
		val  any
	}
	rt := core.M{core.ModPath + "/rt1": core.M{"R": core.M{"pkg-path": core.ModPath + "/rt2", "type-name": "R2"}, "RI": core.M{"pkg-path": core.ModPath + "/rt2", "type-name": "RI2"}}}
	settings := []setting{
		{"template-data unroll-variadic=false", "testify", "template-data", core.M{"unroll-variadic": false}},
		{"template-data unroll-variadic=true", "testify", "template-data", core.M{"unroll-variadic": true}},
		{"template-data skip-ensure", "matryer", "template-data", core.M{"skip-ensure": true}},
		{"template-data stub-impl", "matryer", "template-data", core.M{"stub-impl": true}},
		{"template-data with-resets", "matryer", "template-data", core.M{"with-resets": true}},
		{"template-data skip-ensure+stub-impl+with-resets", "matryer", "template-data", core.M{"skip-ensure": true, "stub-impl": true, "with-resets": true}},
		{"replace-type (two types of one package)", "", "replace-type", rt},
		{"structname", "", "structname", "Double{{.InterfaceName}}"},
		{"pkgname", "", "pkgname", "doubles"},
		{"formatter gofmt", "", "formatter", "gofmt"},
		{"formatter goimports", "", "formatter", "goimports"},
	}
	var mu sync.Mutex
	type job struct {
		s        setting
		tmpl, pl string
	}
	var jobs []job
	for _, s := range settings {
		for _, t := range []string{"testify", "matryer"} {
			if s.tmpl != "" && s.tmpl != t {
				continue
			}
			for _, pl := range []string{"in-package", "separate"} {
				jobs = append(jobs, job{s, t, pl})
			}
		}
	}
	core.ParallelFor(len(jobs), func(ji int) {
		j := jobs[ji]
		id := fmt.Sprintf("level equivalence: %s, template %s, %s", j.s.name, j.tmpl, j.pl)
		var outs [4]string
		var exits [4]int
		var cfgs [4]string
		for lvl := 0; lvl < 4; lvl++ {
			// formatter noop: nothing a formatter would repair (unused or missing imports) may differ either
			root := core.M{"log-level": "error", "template": j.tmpl, "formatter": "noop", "force-file-write": true, "filename": "mocks_gen_test.go", "dir": "{{.InterfaceDir}}"}
			if j.pl == "separate" {
				root["dir"], root["pkgname"], root["filename"] = "mocks", "mocks", "mocks.go"
			}
			pc, ic, cc := core.M{}, core.M{}, core.M{}
			[]core.M{root, pc, ic, cc}[lvl][j.s.key] = j.s.val
			root["packages"] = core.M{P: core.M{"config": pc, "interfaces": core.M{"S": core.M{"config": ic, "configs": []any{cc}}}}}
			cfgs[lvl] = core.YAML(root)
			m, err := c.NewModule(fmt.Sprintf("c08lvl-%d-%d", ji, lvl), mergeFiles(files, map[string]string{".mockery.yml": cfgs[lvl]}))
			if err != nil {
				c.Harness("%v", err)
				return
			}
			before := core.Snapshot(m.Dir)
			r := c.RunMockery(m.Dir, nil)
			c.Ev.Add("transitions", 1)
			if core.ResourceFailure(r) {
				m.Remove()
				c.Skip("%s: run gave up for lack of resources", id)
				return
			}
			after := core.Snapshot(m.Dir)
			added, _, _ := core.DiffSnapshots(before, after)
			var parts []string
			for _, a := range added {
				if after[a] != "dir" {
					txt, _ := m.Read(a)
					parts = append(parts, "== "+a+"\n"+txt)
				}
			}
			m.Remove()
			outs[lvl], exits[lvl] = strings.Join(parts, "\n"), r.Exit
			if r.Panicked() {
				exits[lvl] = -1
			}
		}
		mu.Lock()
		runs++
		mu.Unlock()
		c.Ev.Distinct("states", id)
		names := []string{"top level", "package", "interface", "configs entry"}
		for lvl := 1; lvl < 4; lvl++ {
			if exits[lvl] != exits[0] || outs[lvl] != outs[0] {
				c.Report("level-equivalence:"+id+":"+names[lvl], fmt.Sprintf("%s: written at the %s level the run exits %d and produces different output than written at the top level (exit %d): %s", id, names[lvl], exits[lvl], exits[0], firstDiffLine(outs[0], outs[lvl])),
					map[string]any{"scenario": id, "config_top_level": cfgs[0], "config_" + strings.ReplaceAll(names[lvl], " ", "_"): cfgs[lvl]})
				return
			}
		}
		if exits[0] != 0 || outs[0] == "" {
			c.Report("level-equivalence-generate:"+id, fmt.Sprintf("%s: mockery exits %d / writes nothing for a valid configuration", id, exits[0]), map[string]any{"scenario": id, "config": cfgs[0]})
			return
		}
		mu.Lock()
		agreed++
		mu.Unlock()
	})
	return runs, agreed
}

func firstDiffLine(a, b string) string {
	la, lb := strings.Split(a, "\n"), strings.Split(b, "\n")
	for i := 0; i < len(la) && i < len(lb); i++ {
		if la[i] != lb[i] {
			return fmt.Sprintf("first difference at line %d: %q vs %q", i+1, firstN(la[i], 120), firstN(lb[i], 120))
		}
	}
	return fmt.Sprintf("outputs have %d vs %d lines", len(la), len(lb))
}
