package checks

import (
	"fmt"
	"path/filepath"
	"sort"
	"strings"
	"sync"

	"verif/engine/core"
)

func init() { Registry["C09"] = C09 }

type c09scn struct {
	id      string
	cfg     core.M
	rawCfg  string // if set, written instead of cfg ("-" = no config file at all)
	files   map[string]string
	gomod   string
	invalid bool     // must fail loudly
	expect  []string // for valid scenarios: sorted "srcpkg|iface|struct"
	args    []string
	env     []string // extra environment of the run
	open    bool     // the outcome is left open: only "no unrecovered panic" is decided
}

func C09(c *core.Ctx) error {
	bin, _, err := buildMO(c)
	if err != nil {
		return err
	}
	tdir := filepath.Join(c.Scratch, "c09t")
	execFail := strings.Replace(core.ProbeTemplate, "package {{.PkgName}}", "package {{.PkgName}}\n{{ if index .TemplateData \"explode\" }}{{ readFile \"/nonexistent/verif/x\" }}{{ end }}{{ if index .TemplateData \"badgo\" }}\nfunc ({{ end }}", 1)
	core.WriteTree(tdir, map[string]string{
		"probe.templ": execFail, "probe.templ.schema.json": `{"type":"object","additionalProperties":false,"properties":{"explode":{"type":"boolean"},"badgo":{"type":"boolean"},"ok":{}}}`,
		"other.templ": core.ProbeTemplate, "other.templ.schema.json": `{"type":"object"}`,
		"noparse.templ": "package {{.PkgName}\n", "noparse.templ.schema.json": `{"type":"object"}`,
		"req.templ": core.ProbeTemplate, "req.templ.schema.json": `{"type":"object","required":["must"],"properties":{"must":{"type":"string"}}}`,
	})
	probe := "file://" + filepath.Join(tdir, "probe.templ")
	P := func(s string) string { return core.ModPath + "/" + s }
	pk := []string{"a", "b", "c"}
	baseFiles := func() map[string]string {
		return map[string]string{"a/a.go": "package a\n\ntype IA interface{ M() }\n\ntype IA2 interface{ N() }\n", "b/b.go": "package b\n\ntype IB interface{ M() }\n", "c/c.go": "package c\n\ntype IC interface{ M() }\n"}
	}
	baseCfg := func() (core.M, []core.M, []core.M) {
		root := core.M{"template": probe, "formatter": "gofmt", "log-level": "error", "dir": "{{.InterfaceDir}}", "filename": "mocks_gen_test.go", "force-file-write": true}
		pcs := []core.M{{}, {}, {}}
		ics := []core.M{{"config": core.M{}}, {"config": core.M{}}, {"config": core.M{}}}
		root["packages"] = core.M{
			P("a"): core.M{"config": pcs[0], "interfaces": core.M{"IA": ics[0], "IA2": core.M{}}},
			P("b"): core.M{"config": pcs[1], "interfaces": core.M{"IB": ics[1]}},
			P("c"): core.M{"config": pcs[2], "interfaces": core.M{"IC": ics[2]}},
		}
		return root, pcs, ics
	}
	allMocks := []string{P("a") + "|IA|MockIA", P("a") + "|IA2|MockIA2", P("b") + "|IB|MockIB", P("c") + "|IC|MockIC"}
	var scns []c09scn
	type mutFn func(root core.M, pcs, ics []core.M, files map[string]string, s *c09scn)
	type stored struct {
		id      string
		invalid bool
		mut     mutFn
	}
	var storedMuts []stored
	add := func(id string, invalid bool, mut func(root core.M, pcs, ics []core.M, files map[string]string, s *c09scn)) {
		storedMuts = append(storedMuts, stored{id, invalid, mut})
		root, pcs, ics := baseCfg()
		files := baseFiles()
		s := c09scn{id: id, invalid: invalid, expect: allMocks}
		mut(root, pcs, ics, files, &s)
		s.cfg, s.files = root, files
		scns = append(scns, s)
	}
	add("baseline valid 3-package configuration", false, func(root core.M, pcs, ics []core.M, files map[string]string, s *c09scn) {})
	for pos := 0; pos < 3; pos++ {
		pos := pos
		at := fmt.Sprintf(" (package %s)", pk[pos])
		pkgs := func(root core.M) core.M { return root["packages"].(core.M) }
		add("listed interface does not exist"+at, true, func(root core.M, pcs, ics []core.M, files map[string]string, s *c09scn) {
			pkgs(root)[P(pk[pos])].(core.M)["interfaces"].(core.M)["Missing"] = core.M{}
		})
		// the same fault under every way the package's interfaces may be selected besides listing them: a listed
		// name that is not in the source is an error however the rest of the package is selected
		for _, sel := range []string{"all at package level", "all at top level", "include-interface-regex at package level", "recursive + all at package level", "all at top level switched off at package level"} {
			sel := sel
			add("listed interface does not exist, "+sel+at, true, func(root core.M, pcs, ics []core.M, files map[string]string, s *c09scn) {
				pkgs(root)[P(pk[pos])].(core.M)["interfaces"].(core.M)["Missing"] = core.M{"config": core.M{"structname": "MissingDouble"}}
				switch sel {
				case "all at package level":
					pcs[pos]["all"] = true
				case "all at top level":
					root["all"] = true
				case "include-interface-regex at package level":
					pcs[pos]["include-interface-regex"] = "I.*"
				case "recursive + all at package level":
					pcs[pos]["all"], pcs[pos]["recursive"] = true, true
				case "all at top level switched off at package level":
					root["all"] = true
					pcs[pos]["all"] = false
				}
			})
		}
		add("configured package path does not exist"+at, true, func(root core.M, pcs, ics []core.M, files map[string]string, s *c09scn) {
			delete(files, pk[pos]+"/"+pk[pos]+".go")
		})
		add("configured package path does not exist, nothing listed"+at, true, func(root core.M, pcs, ics []core.M, files map[string]string, s *c09scn) {
			delete(files, pk[pos]+"/"+pk[pos]+".go")
			pkgs(root)[P(pk[pos])] = core.M{"config": core.M{"all": true}}
		})
		add("package with a type error"+at, true, func(root core.M, pcs, ics []core.M, files map[string]string, s *c09scn) {
			files[pk[pos]+"/bad.go"] = "package " + pk[pos] + "\n\nvar x int = \"s\"\n"
		})
		// the same with the broken package's interfaces selected by all / by a regex instead of being listed (no
		// missing-interface accounting can stand in for the load error then)
		for _, sel := range []string{"all", "include-interface-regex"} {
			sel := sel
			add("package with a type error, its interfaces selected by "+sel+at, true, func(root core.M, pcs, ics []core.M, files map[string]string, s *c09scn) {
				files[pk[pos]+"/bad.go"] = "package " + pk[pos] + "\n\nvar x int = \"s\"\n"
				cfgp := core.M{"all": true}
				if sel != "all" {
					cfgp = core.M{"include-interface-regex": "I.*"}
				}
				pkgs(root)[P(pk[pos])] = core.M{"config": cfgp}
			})
			add("package with a syntax error, its interfaces selected by "+sel+at, true, func(root core.M, pcs, ics []core.M, files map[string]string, s *c09scn) {
				files[pk[pos]+"/bad.go"] = "package " + pk[pos] + "\n\nfunc (\n"
				cfgp := core.M{"all": true}
				if sel != "all" {
					cfgp = core.M{"include-interface-regex": "I.*"}
				}
				pkgs(root)[P(pk[pos])] = core.M{"config": cfgp}
			})
		}
		add("package with a syntax error"+at, true, func(root core.M, pcs, ics []core.M, files map[string]string, s *c09scn) {
			files[pk[pos]+"/bad.go"] = "package " + pk[pos] + "\n\nfunc (\n"
		})
		for _, lvl := range []string{"package", "interface"} {
			lvl := lvl
			tgt := func(pcs, ics []core.M) core.M {
				if lvl == "package" {
					return pcs[pos]
				}
				return ics[pos]["config"].(core.M)
			}
			add("unknown template at "+lvl+" level"+at, true, func(root core.M, pcs, ics []core.M, files map[string]string, s *c09scn) {
				tgt(pcs, ics)["template"] = "nosuchstyle"
			})
			add("unknown formatter at "+lvl+" level"+at, true, func(root core.M, pcs, ics []core.M, files map[string]string, s *c09scn) {
				tgt(pcs, ics)["formatter"] = "prettier"
			})
			add("unknown configuration key at "+lvl+" level"+at, true, func(root core.M, pcs, ics []core.M, files map[string]string, s *c09scn) {
				tgt(pcs, ics)["no-such-key"] = 1
			})
			add("unreadable custom template at "+lvl+" level"+at, true, func(root core.M, pcs, ics []core.M, files map[string]string, s *c09scn) {
				tgt(pcs, ics)["template"] = "file://" + filepath.Join(tdir, "missing.templ")
			})
			add("template that does not parse at "+lvl+" level"+at, true, func(root core.M, pcs, ics []core.M, files map[string]string, s *c09scn) {
				tgt(pcs, ics)["template"] = "file://" + filepath.Join(tdir, "noparse.templ")
			})
			add("template-data rejected by the schema at "+lvl+" level"+at, true, func(root core.M, pcs, ics []core.M, files map[string]string, s *c09scn) {
				tgt(pcs, ics)["template-data"] = core.M{"bogus": 1}
			})
			add("template fails during execution ("+lvl+" level data)"+at, true, func(root core.M, pcs, ics []core.M, files map[string]string, s *c09scn) {
				pcs[pos]["template-data"] = core.M{"explode": true}
			})
			add("cyclic templated value at "+lvl+" level"+at, true, func(root core.M, pcs, ics []core.M, files map[string]string, s *c09scn) {
				tgt(pcs, ics)["structname"] = "X{{.StructName}}"
			})
			add("templated value with a syntax error at "+lvl+" level"+at, true, func(root core.M, pcs, ics []core.M, files map[string]string, s *c09scn) {
				tgt(pcs, ics)["filename"] = "{{.InterfaceName"
			})
		}
		// a schema that rejects the EMPTY document: leaving the data out (everywhere, or for one mock only) is a
		// violation like any other
		add("required template-data key missing: no template-data at any level"+at, true, func(root core.M, pcs, ics []core.M, files map[string]string, s *c09scn) {
			pcs[pos]["template"] = "file://" + filepath.Join(tdir, "req.templ")
		})
		add("required template-data key present at package level but emptied for one interface"+at, true, func(root core.M, pcs, ics []core.M, files map[string]string, s *c09scn) {
			pcs[pos]["template"] = "file://" + filepath.Join(tdir, "req.templ")
			pcs[pos]["template-data"] = core.M{"must": "here"}
			ics[pos]["config"].(core.M)["template-data"] = core.M{"must": nil}
		})
		add("required template-data key given (valid control)"+at, false, func(root core.M, pcs, ics []core.M, files map[string]string, s *c09scn) {
			pcs[pos]["template"] = "file://" + filepath.Join(tdir, "req.templ")
			pcs[pos]["template-data"] = core.M{"must": "here"}
		})
		add("schema-rejected value at interface level overriding a valid top-level value of the same key"+at, true, func(root core.M, pcs, ics []core.M, files map[string]string, s *c09scn) {
			root["template-data"] = core.M{"explode": false}
			ics[pos]["config"].(core.M)["template-data"] = core.M{"explode": "sometimes"}
		})
		add("output the formatter rejects"+at, true, func(root core.M, pcs, ics []core.M, files map[string]string, s *c09scn) {
			pcs[pos]["template-data"] = core.M{"badgo": true}
		})
		add("invalid include-interface-regex"+at, true, func(root core.M, pcs, ics []core.M, files map[string]string, s *c09scn) {
			pkgs(root)[P(pk[pos])] = core.M{"config": core.M{"include-interface-regex": "I("}}
		})
		add("invalid exclude-interface-regex"+at, true, func(root core.M, pcs, ics []core.M, files map[string]string, s *c09scn) {
			pkgs(root)[P(pk[pos])] = core.M{"config": core.M{"include-interface-regex": "I", "exclude-interface-regex": "[z-a]"}}
		})
		add("invalid exclude-subpkg-regex on a recursive package"+at, true, func(root core.M, pcs, ics []core.M, files map[string]string, s *c09scn) {
			pcs[pos]["recursive"] = true
			pcs[pos]["exclude-subpkg-regex"] = []any{"sub("}
			files[pk[pos]+"/sub/s.go"] = "package sub\n\ntype IS interface{ M() }\n"
		})
		// an invalid entry anywhere in the list, whatever the other entries match (the package itself, every
		// sub-package, nothing) and even when no sub-package exists: the list is invalid as a whole
		for _, form := range []struct {
			name string
			list []any
			sub  bool
		}{
			{"after an entry that matches everything", []any{".*", "sub("}, true},
			{"after an entry that matches the sub-package", []any{"/sub$", "(unclosed"}, true},
			{"before a valid entry", []any{"[z-a]", "/sub$"}, true},
			{"between valid entries that match nothing", []any{"nomatch1", "x{2,1}", "nomatch2"}, true},
			{"on a recursive package without sub-packages", []any{"ok", "sub("}, false},
		} {
			form := form
			add("invalid exclude-subpkg-regex entry "+form.name+at, true, func(root core.M, pcs, ics []core.M, files map[string]string, s *c09scn) {
				pcs[pos]["recursive"] = true
				pcs[pos]["exclude-subpkg-regex"] = form.list
				if form.sub {
					files[pk[pos]+"/sub/s.go"] = "package sub\n\ntype IS interface{ M() }\n"
				}
			})
		}
		add("unknown configuration key in a configs entry"+at, true, func(root core.M, pcs, ics []core.M, files map[string]string, s *c09scn) {
			ics[pos]["configs"] = []any{core.M{"structname": "M0", "nonsense": true}}
		})
		add("output path occupied by a directory"+at, true, func(root core.M, pcs, ics []core.M, files map[string]string, s *c09scn) {
			files[pk[pos]+"/mocks_gen_test.go/keep.txt"] = "x\n"
		})
		add("existing output file without force-file-write"+at, true, func(root core.M, pcs, ics []core.M, files map[string]string, s *c09scn) {
			pcs[pos]["force-file-write"] = false
			files[pk[pos]+"/mocks_gen_test.go"] = "package " + pk[pos] + "\n"
		})
		// conflicting requirements for one output file
		other := (pos + 1) % 3
		add(fmt.Sprintf("two source packages write one output file (%s and %s)", pk[pos], pk[other]), true, func(root core.M, pcs, ics []core.M, files map[string]string, s *c09scn) {
			pcs[pos]["dir"], pcs[other]["dir"] = "shared", "shared"
			pcs[pos]["pkgname"], pcs[other]["pkgname"] = "shared", "shared"
		})
		if pos == 0 {
			add("two mocks of one file with different pkgname", true, func(root core.M, pcs, ics []core.M, files map[string]string, s *c09scn) {
				ics[0]["config"].(core.M)["pkgname"] = "otherpkg"
			})
			add("two mocks of one file with different templates", true, func(root core.M, pcs, ics []core.M, files map[string]string, s *c09scn) {
				ics[0]["config"].(core.M)["template"] = "file://" + filepath.Join(tdir, "other.templ")
			})
			add("same-named packages at different paths write one output file", true, func(root core.M, pcs, ics []core.M, files map[string]string, s *c09scn) {
				files["x/store/s.go"] = "package store\n\ntype Store interface{ Get() }\n"
				files["y/store/s.go"] = "package store\n\ntype Store interface{ Put() }\n"
				for _, q := range []string{"x/store", "y/store"} {
					root["packages"].(core.M)[P(q)] = core.M{"config": core.M{"all": true, "dir": "storemocks", "pkgname": "storemocks", "filename": "m.go"}}
				}
			})
		}
	}
	// root-level and file-level faults
	add("unknown configuration key at the top level", true, func(root core.M, pcs, ics []core.M, files map[string]string, s *c09scn) { root["no-such-key"] = true })
	add("unknown template at the top level", true, func(root core.M, pcs, ics []core.M, files map[string]string, s *c09scn) {
		root["template"] = "nosuchstyle"
	})
	// boolean parameters given through the environment, in every letter case: the documented spellings mean what
	// they say, no spelling makes mockery panic
	for _, v := range []string{"true", "True", "TRUE", "false", "False", "FALSE", "tRue", "trUE", "fAlse", "FALSe", "t", "1", "yes", ""} {
		v := v
		for _, name := range []string{"MOCKERY_ALL", "MOCKERY_FORCE_FILE_WRITE", "MOCKERY_RECURSIVE"} {
			name := name
			add(fmt.Sprintf("%s=%q in the environment", name, v), false, func(root core.M, pcs, ics []core.M, files map[string]string, s *c09scn) {
				s.env = []string{name + "=" + v}
				lower := strings.ToLower(v)
				s.open = !(v == lower || v == strings.ToUpper(v) || v == strings.ToUpper(v[:1])+lower[1:]) || (lower != "true" && lower != "false")
				if name == "MOCKERY_FORCE_FILE_WRITE" {
					delete(root, "force-file-write")
				}
			})
		}
	}
	// two mocks share a file: whichever of them names the unknown formatter, the run is invalid
	for _, which := range []string{"IA", "IA2"} {
		which := which
		add("unknown formatter on "+which+" of two interfaces sharing one file", true, func(root core.M, pcs, ics []core.M, files map[string]string, s *c09scn) {
			root["packages"].(core.M)[P("a")].(core.M)["interfaces"].(core.M)[which] = core.M{"config": core.M{"formatter": "prettier"}}
		})
		add("unknown formatter in the second configs entry of "+which, true, func(root core.M, pcs, ics []core.M, files map[string]string, s *c09scn) {
			root["packages"].(core.M)[P("a")].(core.M)["interfaces"].(core.M)[which] = core.M{"configs": []core.M{{"structname": "First" + which}, {"structname": "Second" + which, "formatter": "prettier"}}}
		})
	}
	add("unknown formatter at the top level", true, func(root core.M, pcs, ics []core.M, files map[string]string, s *c09scn) {
		root["formatter"] = "prettier"
	})
	add("invalid exclude-subpkg-regex at the top level with a recursive package", true, func(root core.M, pcs, ics []core.M, files map[string]string, s *c09scn) {
		root["exclude-subpkg-regex"] = []any{"("}
		pcs[1]["recursive"] = true
		files["b/sub/s.go"] = "package sub\n\ntype IS interface{ M() }\n"
	})
	add("empty packages section", true, func(root core.M, pcs, ics []core.M, files map[string]string, s *c09scn) { root["packages"] = core.M{} })
	add("no packages section", true, func(root core.M, pcs, ics []core.M, files map[string]string, s *c09scn) { delete(root, "packages") })
	scns = append(scns, c09scn{id: "config file absent", rawCfg: "-", files: baseFiles(), invalid: true})
	scns = append(scns, c09scn{id: "config file is not YAML", rawCfg: "packages: [unclosed\n  - {", files: baseFiles(), invalid: true})
	scns = append(scns, c09scn{id: "config file is a YAML list", rawCfg: "- a\n- b\n", files: baseFiles(), invalid: true})
	scns = append(scns, c09scn{id: "config file is empty", rawCfg: "\n", files: baseFiles(), invalid: true})
	// command lines mockery cannot act on: nothing is generated, so the exit status must say so
	for _, a := range [][]string{{"--no-such-flag"}, {"--config"}, {"--log-level"}, {"-x"}, {"--config", "nope.yml", "--no-such-flag=1"}} {
		scns = append(scns, c09scn{id: fmt.Sprintf("command line %q (unknown flag / flag without its value)", strings.Join(a, " ")), files: baseFiles(), cfg: func() core.M { r, _, _ := baseCfg(); return r }(), args: a, invalid: true})
	}
	scns = append(scns, c09scn{id: "--config names a missing file", files: baseFiles(), cfg: func() core.M { r, _, _ := baseCfg(); return r }(), args: []string{"--config", "nope.yml"}, invalid: true})
	// ---- valid but unusual inputs: must succeed completely, never crash
	add("function-local and literal-local interface types", false, func(root core.M, pcs, ics []core.M, files map[string]string, s *c09scn) {
		files["a/local.go"] = "package a\n\nfunc f() {\n\ttype IA interface{ Other() }\n\ttype Loc interface{ L() }\n\tvar _ IA\n\tvar _ Loc\n}\n\nvar lit = func() {\n\ttype IA2 interface{ X() }\n\tvar _ IA2\n}\n"
	})
	// declarations that are legal Go but have no (usable) name in the package scope
	add("blank-named interface type and other blank declarations", false, func(root core.M, pcs, ics []core.M, files map[string]string, s *c09scn) {
		files["a/blank.go"] = "package a\n\ntype _ interface{ N() }\n\ntype _ struct{ F int }\n\ntype _ = IA\n\nvar _ IA\n\nfunc _() {}\n"
	})
	add("blank-named interface type in a package selected by all", false, func(root core.M, pcs, ics []core.M, files map[string]string, s *c09scn) {
		files["b/blank.go"] = "package b\n\ntype _ interface{ N() }\n\ntype _[T any] interface{ G(T) }\n"
		root["packages"].(core.M)[P("b")] = core.M{"config": core.M{"all": true}}
	})
	// null where a map is expected, at every place of the tree that has not been covered by "null bodies" elsewhere
	add("null entry in a configs list", false, func(root core.M, pcs, ics []core.M, files map[string]string, s *c09scn) {
		ics[0]["configs"] = []any{nil, core.M{"structname": "SecondIA"}}
		s.expect = []string{P("a") + "|IA2|MockIA2", P("a") + "|IA|MockIA", P("a") + "|IA|SecondIA", P("b") + "|IB|MockIB", P("c") + "|IC|MockIC"}
	})
	add("null config sections and null template-data at package and interface level", false, func(root core.M, pcs, ics []core.M, files map[string]string, s *c09scn) {
		pkgs := root["packages"].(core.M)
		pkgs[P("b")] = core.M{"config": nil, "interfaces": core.M{"IB": core.M{"config": nil, "configs": nil}}}
		pkgs[P("c")] = core.M{"config": core.M{"template-data": nil, "replace-type": nil, "exclude-subpkg-regex": nil}, "interfaces": core.M{"IC": core.M{"config": core.M{"template-data": nil}}}}
	})
	// one template-data key with different shapes at different levels (valid: the more specific level wins)
	add("template-data key: map at interface level over a scalar at top level, scalar in a configs entry over a map at package level", false, func(root core.M, pcs, ics []core.M, files map[string]string, s *c09scn) {
		root["template-data"] = core.M{"ok": "scalar at the top"}
		ics[0]["config"].(core.M)["template-data"] = core.M{"ok": core.M{"nested": "map at interface level"}}
		pcs[1]["template-data"] = core.M{"ok": core.M{"nested": core.M{"deep": 1}}}
		ics[1]["configs"] = []any{core.M{"template-data": core.M{"ok": "scalar in a configs entry"}}, core.M{"template-data": core.M{"ok": []any{"list", 2}}}}
		s.expect = []string{P("a") + "|IA2|MockIA2", P("a") + "|IA|MockIA", P("b") + "|IB|MockIB", P("b") + "|IB|MockIB", P("c") + "|IC|MockIC"}
	})
	add("two interfaces into one output file whose path is spelled relatively and through {{.ConfigDir}}", false, func(root core.M, pcs, ics []core.M, files map[string]string, s *c09scn) {
		root["filename"] = "shared_gen_test.go"
		ics[0]["config"].(core.M)["dir"] = "a"
		root["packages"].(core.M)[P("a")].(core.M)["interfaces"].(core.M)["IA2"] = core.M{"config": core.M{"dir": "{{.ConfigDir}}/a"}}
	})
	add("build-tagged file without build-tags (tag off)", false, func(root core.M, pcs, ics []core.M, files map[string]string, s *c09scn) {
		files["a/tagged.go"] = "//go:build special\n\npackage a\n\ntype Tagged interface{ T() }\n"
	})
	add("build-tagged file listed interface with build-tags set", false, func(root core.M, pcs, ics []core.M, files map[string]string, s *c09scn) {
		files["a/tagged.go"] = "//go:build special\n\npackage a\n\ntype Tagged interface{ T() }\n"
		root["build-tags"] = "special"
		root["packages"].(core.M)[P("a")].(core.M)["interfaces"].(core.M)["Tagged"] = core.M{}
		s.expect = append(append([]string{}, allMocks...), P("a")+"|Tagged|MockTagged")
	})
	add("build-tagged interface listed but tag off", true, func(root core.M, pcs, ics []core.M, files map[string]string, s *c09scn) {
		files["a/tagged.go"] = "//go:build special\n\npackage a\n\ntype Tagged interface{ T() }\n"
		root["packages"].(core.M)[P("a")].(core.M)["interfaces"].(core.M)["Tagged"] = core.M{}
	})
	// files that import "C" are compiled from generated copies: the syntax trees of the package are not parallel to
	// its list of Go files; every listed interface is found all the same, whichever file declares it
	for _, sel := range []string{"listed", "all"} {
		sel := sel
		add("package with two cgo files around a plain one, interfaces "+sel, false, func(root core.M, pcs, ics []core.M, files map[string]string, s *c09scn) {
			cgo := func(iface, fn string) string {
				return "package b\n\n// #include <stdlib.h>\nimport \"C\"\n\ntype " + iface + " interface{ M() }\n\nfunc " + fn + "() int { return int(C.abs(-1)) }\n"
			}
			files["b/a_cgo.go"] = cgo("InA", "fa")
			files["b/c_cgo.go"] = cgo("InC", "fc")
			ifs := root["packages"].(core.M)[P("b")].(core.M)["interfaces"].(core.M)
			if sel == "listed" {
				ifs["InA"], ifs["InC"] = core.M{}, core.M{}
			} else {
				pcs[1]["all"] = true
			}
			s.expect = append(append([]string{}, allMocks...), P("b")+"|InA|MockInA", P("b")+"|InC|MockInC")
		})
	}
	add("package with additional test-only files", false, func(root core.M, pcs, ics []core.M, files map[string]string, s *c09scn) {
		files["b/b_test.go"] = "package b\n\ntype OnlyInTest interface{ T() }\n"
		files["b/ext_test.go"] = "package b_test\n"
	})
	add("recursive root with an empty directory, a non-Go directory and a test-only directory", false, func(root core.M, pcs, ics []core.M, files map[string]string, s *c09scn) {
		pcs[2]["recursive"] = true
		files["c/empty/"] = ""
		files["c/docs/readme.md"] = "docs\n"
		files["c/onlytests/x_test.go"] = "package onlytests\n"
		files["c/sub/s.go"] = "package sub\n\ntype IS interface{ M() }\n"
		pcs[2]["all"] = true
		s.expect = append(append([]string{}, allMocks...), P("c/sub")+"|IS|MockIS")
	})
	// a sub-package reached only through recursion that the go tool itself cannot describe: still a package that fails
	// to load, not a directory to skip
	for _, brk := range []struct {
		name, dir string
		files     map[string]string
	}{
		{"two package names in one directory", "c/sub", map[string]string{"a.go": "package sub\n\ntype IS interface{ M() }\n", "b.go": "package other\n\ntype IO interface{ M() }\n"}},
		{"a broken package clause", "c/sub", map[string]string{"a.go": "packag sub\n\ntype IS interface{ M() }\n"}},
		{"two package names in one directory, two levels down", "c/mid/deep", map[string]string{"a.go": "package deep\n\ntype IS interface{ M() }\n", "b.go": "package other\n"}},
	} {
		brk := brk
		add("recursive root with a sub-package that has "+brk.name, true, func(root core.M, pcs, ics []core.M, files map[string]string, s *c09scn) {
			pcs[2]["recursive"], pcs[2]["all"] = true, true
			if brk.dir == "c/mid/deep" {
				files["c/mid/m.go"] = "package mid\n\ntype IM interface{ M() }\n"
			}
			for f, src := range brk.files {
				files[brk.dir+"/"+f] = src
			}
		})
	}
	add("nested module below a recursive package", false, func(root core.M, pcs, ics []core.M, files map[string]string, s *c09scn) {
		pcs[2]["recursive"] = true
		files["c/nested/go.mod"] = "module example.com/nested\n\ngo 1.23\n"
		files["c/nested/n.go"] = "package nested\n\ntype IN interface{ M() }\n"
	})
	add("interface names that need quoting in YAML", false, func(root core.M, pcs, ics []core.M, files map[string]string, s *c09scn) {
		files["a/odd.go"] = "package a\n\ntype Null interface{ M() }\n\ntype True interface{ M() }\n\ntype N123 interface{ M() }\n"
		for _, n := range []string{"Null", "True", "N123"} {
			root["packages"].(core.M)[P("a")].(core.M)["interfaces"].(core.M)[n] = nil
		}
		s.expect = append(append([]string{}, allMocks...), P("a")+"|Null|MockNull", P("a")+"|True|MockTrue", P("a")+"|N123|MockN123")
	})
	for name, gm := range map[string]string{
		"tab separated module directive":  strings.Replace(core.GoModText, "module example.com/m", "module\texample.com/m", 1),
		"quoted module path with comment": strings.Replace(core.GoModText, "module example.com/m", "module \"example.com/m\" // c", 1),
		"block-form module directive":     strings.Replace(core.GoModText, "module example.com/m", "module (\n\texample.com/m\n)", 1),
		"module directive last":           strings.Replace(core.GoModText, "module example.com/m\n\n", "", 1) + "\nmodule example.com/m\n",
	} {
		gm := gm
		add("go.mod with "+name, false, func(root core.M, pcs, ics []core.M, files map[string]string, s *c09scn) { s.gomod = gm })
	}
	// the go.mod that governs an OUTPUT directory (a nested module) in every module-less but syntactically valid form
	for _, gm := range []struct{ name, text string }{{"empty", ""}, {"comment only", "// nothing here\n"}, {"go directive only", "go 1.23\n"}, {"require only", "require github.com/stretchr/testify v1.10.0\n"}} {
		gm := gm
		for pos := 0; pos < 3; pos++ {
			pos := pos
			add(fmt.Sprintf("output directory inside a nested module whose go.mod has no module directive (%s) (package %s)", gm.name, pk[pos]), true, func(root core.M, pcs, ics []core.M, files map[string]string, s *c09scn) {
				pcs[pos]["dir"] = "gen/mocks_" + pk[pos]
				pcs[pos]["pkgname"] = "mocks"
				files["gen/go.mod"] = gm.text
			})
		}
	}
	scns = append(scns, c09scn{id: "go.mod without a module directive", files: baseFiles(), cfg: func() core.M { r, _, _ := baseCfg(); return r }(), gomod: "go 1.23\n", invalid: true})

	// thorough: pairs of faults in two different packages (still a diagnostic, still no crash)
	if !core.Quick(c.Tier) {
		n := len(storedMuts)
		for i := 0; i < n; i++ {
			for j := 0; j < n; j++ {
				a, b := storedMuts[i], storedMuts[j]
				if !a.invalid || !strings.HasSuffix(a.id, "(package a)") {
					continue
				}
				if !(b.invalid && strings.HasSuffix(b.id, "(package b)")) {
					continue
				}
				root, pcs, ics := baseCfg()
				files := baseFiles()
				sc := c09scn{id: "pair: " + a.id + " + " + b.id, invalid: true}
				b.mut(root, pcs, ics, files, &sc)
				a.mut(root, pcs, ics, files, &sc)
				sc.invalid = true
				sc.cfg, sc.files = root, files
				scns = append(scns, sc)
			}
		}
	}
	var mu sync.Mutex
	done := 0
	classes := map[string]int{}
	core.ParallelFor(len(scns)*2, func(j int) {
		if c.Expired() {
			return
		}
		s := scns[j/2]
		order := []string{"sorted", "reversed"}[j%2]
		files := map[string]string{}
		for k, v := range s.files {
			files[k] = v
		}
		switch {
		case s.rawCfg == "-":
		case s.rawCfg != "":
			files[".mockery.yml"] = s.rawCfg
		default:
			files[".mockery.yml"] = core.YAML(s.cfg)
		}
		if s.gomod != "" {
			files["go.mod"] = s.gomod
		}
		m, err := c.NewModule(fmt.Sprintf("c09-%d", j), files)
		if err != nil {
			c.Harness("%v", err)
			return
		}
		defer m.Remove()
		env := append([]string{}, s.env...)
		if order == "reversed" {
			env = append(env, "VERIF_MO_REVERSE=1")
		}
		r := moRun(c, bin, m.Dir, nil, env, s.args...).Res
		c.Ev.Add("transitions", 1)
		c.Ev.Add("evaluations", 1)
		c.Ev.Distinct("states", s.id+"/"+order)
		id := s.id + " [map order " + order + "]"
		replay := map[string]any{"scenario": s.id, "order": order, "files": files, "exit": r.Exit, "stderr": firstN(r.Stderr, 700), "env": s.env}
		if core.ResourceFailure(r) {
			c.Skip("%s: run timed out or was killed", s.id)
			return
		}
		if r.Panicked() {
			c.Report("crash:"+s.id, id+": mockery terminated by an unrecovered panic (or hung): "+firstN(r.Stderr, 500), replay)
			return
		}
		var got []string
		for _, f := range m.CollectProbe() {
			for _, mk := range f.Mocks {
				got = append(got, fmt.Sprintf("%s|%s|%s", f.SrcPkg, mk.Iface, mk.Struct))
			}
		}
		sort.Strings(got)
		if s.open {
			// nothing further to decide
		} else if s.invalid {
			if r.Exit == 0 {
				c.Report("exit0:"+s.id, id+": invalid/unsatisfiable input but mockery exited 0 (mocks written: "+strings.Join(got, ", ")+")", replay)
				return
			}
			if strings.TrimSpace(r.Stderr+r.Stdout) == "" {
				c.Report("silent:"+s.id, id+": non-zero exit without any diagnostic", replay)
				return
			}
		} else {
			if r.Exit != 0 {
				c.Report("exit:"+s.id, fmt.Sprintf("%s: valid input but exit %d: %s", id, r.Exit, firstN(r.Stderr, 400)), replay)
				return
			}
			want := append([]string{}, s.expect...)
			sort.Strings(want)
			if strings.Join(got, "\n") != strings.Join(want, "\n") {
				c.Report("incomplete:"+s.id, fmt.Sprintf("%s: exit 0 but the generated mocks differ from the configured ones.\n expected %v\n observed %v", id, want, got), replay)
				return
			}
		}
		mu.Lock()
		done++
		if s.open {
			classes[fmt.Sprintf("outcome left open exit=%d", r.Exit)]++
		} else {
			classes[fmt.Sprintf("invalid=%v exit=%d", s.invalid, r.Exit)]++
		}
		mu.Unlock()
		if j%37 == 0 {
			c.Ev.Sample(map[string]any{"scenario": s.id, "order": order, "exit": r.Exit, "diagnostic": firstN(lastErrLine(r.Stderr), 160)})
		}
	})
	c.Ev.Set("traces_validated_against_impl", done)
	c.Ev.Set("distinct_nontrivial", classes["invalid=true exit=1"])
	c.Ev.Set("outcome_classes", classes)
	c.Ev.Set("cases", len(scns))
	c.Ev.Set("exhaustive", done == len(scns)*2)
	c.Ev.Set("rule", "a valid 3-package configuration is perturbed by one fault at a time, the fault placed in each of the three packages and, where it can be written there, at package and interface level: missing listed interface (alone and with the package's interfaces selected through all / include-interface-regex / recursive at package or top level), missing package, type/syntax error, unknown template/formatter/key, unreadable / unparsable / failing template, schema-rejected template-data, cyclic and malformed templated values, invalid regexes, output the formatter rejects, output path occupied, existing file without force, conflicting mocks for one file (different source packages incl. same-named ones, pkgname, template), root-level and config-file-level faults, command lines with an unknown flag or a flag without its value; plus valid-but-unusual inputs (local types, blank-named type declarations, build tags, cgo files, test-only files, empty / non-Go / test-only / nested-module directories under a recursive root, YAML-hostile interface names, go.mod spellings, boolean parameters spelled in every letter case in the environment). Every scenario runs under the sorted and the reversed map iteration order (instrumented binary). Invalid => non-zero exit with a diagnostic; valid => exit 0 and exactly the configured mocks; never a panic trace; distinct_nontrivial = invalid scenarios rejected")
	return nil
}
