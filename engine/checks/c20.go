package checks

import (
	"fmt"
	"os"
	"path/filepath"
	"sort"
	"strconv"
	"strings"
	"time"

	"verif/engine/core"
)

func init() { Registry["C20"] = C20 }

// ---- tiny semver reference (independent of Masterminds/semver)

type sv struct {
	maj, min, pat int
	pre           []string
	ok            bool
}

func parseSV(s string) sv {
	s = strings.TrimPrefix(s, "v")
	if i := strings.IndexByte(s, '+'); i >= 0 {
		s = s[:i]
	}
	pre := ""
	if i := strings.IndexByte(s, '-'); i >= 0 {
		pre = s[i+1:]
		s = s[:i]
	}
	parts := strings.Split(s, ".")
	if len(parts) == 0 || len(parts) > 3 {
		return sv{}
	}
	nums := [3]int{}
	for i, p := range parts {
		n, err := strconv.Atoi(p)
		if err != nil || n < 0 || p == "" {
			return sv{}
		}
		nums[i] = n
	}
	v := sv{maj: nums[0], min: nums[1], pat: nums[2], ok: true}
	if pre != "" {
		v.pre = strings.Split(pre, ".")
	}
	return v
}

func cmpSV(a, b sv) int {
	for _, p := range [][2]int{{a.maj, b.maj}, {a.min, b.min}, {a.pat, b.pat}} {
		if p[0] != p[1] {
			if p[0] < p[1] {
				return -1
			}
			return 1
		}
	}
	if len(a.pre) == 0 && len(b.pre) == 0 {
		return 0
	}
	if len(a.pre) == 0 {
		return 1
	}
	if len(b.pre) == 0 {
		return -1
	}
	for i := 0; i < len(a.pre) && i < len(b.pre); i++ {
		x, y := a.pre[i], b.pre[i]
		xn, xe := strconv.Atoi(x)
		yn, ye := strconv.Atoi(y)
		switch {
		case xe == nil && ye == nil:
			if xn != yn {
				if xn < yn {
					return -1
				}
				return 1
			}
		case xe == nil:
			return -1
		case ye == nil:
			return 1
		default:
			if x != y {
				if x < y {
					return -1
				}
				return 1
			}
		}
	}
	if len(a.pre) != len(b.pre) {
		if len(a.pre) < len(b.pre) {
			return -1
		}
		return 1
	}
	return 0
}

type c20case struct {
	tags    []string // names
	annot   []bool
	tree    string // clean untracked modified staged
	version string
	dry     string // absent true false
	branches []string // branches (on the first commit) named like tags the tool may look for or create
}

func (cs c20case) id() string {
	t := []string{}
	for i, n := range cs.tags {
		if cs.annot[i] {
			t = append(t, n+"(a)")
		} else {
			t = append(t, n)
		}
	}
	br := ""
	if len(cs.branches) > 0 {
		br = " branches=[" + strings.Join(cs.branches, ",") + "]"
	}
	return fmt.Sprintf("tags=[%s] tree=%s version=%s dry-run=%s%s", strings.Join(t, ","), cs.tree, cs.version, cs.dry, br)
}

func gitEnv(home string) []string {
	return append(core.UserEnv(), "HOME="+home, "GIT_CONFIG_GLOBAL=/dev/null", "GIT_CONFIG_SYSTEM=/dev/null", "GIT_CONFIG_NOSYSTEM=1",
		"GIT_AUTHOR_NAME=v", "GIT_AUTHOR_EMAIL=v@example.com", "GIT_COMMITTER_NAME=v", "GIT_COMMITTER_EMAIL=v@example.com",
		"GIT_AUTHOR_DATE=2020-01-01T00:00:00Z", "GIT_COMMITTER_DATE=2020-01-01T00:00:00Z")
}

func C20(c *core.Ctx) error {
	if err := c.CopyRepo(); err != nil {
		return err
	}
	tools := filepath.Join(c.Scratch, "tools-bin")
	if err := c.BuildRepoPkg("tools", ".", tools); err != nil {
		return err
	}
	env := gitEnv(c.Scratch)
	git := func(dir string, args ...string) (string, error) {
		r := core.Run(dir, env, time.Minute, "", "git", args...)
		if r.Exit != 0 {
			return r.Stdout, fmt.Errorf("git %v: %s", args, r.Stderr)
		}
		return r.Stdout, nil
	}
	// template repository: two commits, tracked file f.txt
	tmpl := filepath.Join(c.Scratch, "tmpl", "repo")
	os.MkdirAll(tmpl, 0o755)
	steps := [][]string{{"init", "-q", "-b", "main", "."}}
	for _, s := range steps {
		if _, err := git(tmpl, s...); err != nil {
			return err
		}
	}
	os.WriteFile(filepath.Join(tmpl, "f.txt"), []byte("one\n"), 0o644)
	for _, s := range [][]string{{"add", "f.txt"}, {"commit", "-q", "-m", "c1"}} {
		if _, err := git(tmpl, s...); err != nil {
			return err
		}
	}
	c1, _ := git(tmpl, "rev-parse", "HEAD")
	c1 = strings.TrimSpace(c1)
	os.WriteFile(filepath.Join(tmpl, "f.txt"), []byte("two\n"), 0o644)
	for _, s := range [][]string{{"add", "f.txt"}, {"commit", "-q", "-m", "c2"}} {
		if _, err := git(tmpl, s...); err != nil {
			return err
		}
	}

	pool := []string{"v1.2.3", "v1.9.0", "v1.10.0", "v2.0.0", "v1", "v1.2", "foo", "v1.3.0-rc.1", "rel.1.x", "1.9.5"} // the last one: a full version tag written without the v
	versions := []string{"v1.2.2", "v1.2.3", "v1.9.1", "v1.10.1", "v2.0.0", "v3.0.0", "1.10.1", "bad", "v1.3.0", "v1.3.0-rc.1", "v1.2.3+build.7", "v1.10.0+20260929"}
	trees := []string{"clean", "untracked", "modified", "staged"}
	drys := []string{"absent", "true", "false"}
	maxSub := 2
	if !core.Quick(c.Tier) {
		maxSub = 3
		pool = append(pool, "v1.10.0+build.5", "1.11.0")
		versions = append(versions, "v1.11.0", "v1.10.0")
	}
	var subsets [][]int
	var rec func(start int, cur []int)
	rec = func(start int, cur []int) {
		subsets = append(subsets, append([]int{}, cur...))
		if len(cur) == maxSub {
			return
		}
		for i := start; i < len(pool); i++ {
			rec(i+1, append(cur, i))
		}
	}
	rec(0, nil)
	sort.SliceStable(subsets, func(i, j int) bool { return len(subsets[i]) < len(subsets[j]) })
	var cases []c20case
	for _, sub := range subsets {
		forms := [][]bool{}
		lw := make([]bool, len(sub))
		forms = append(forms, lw)
		if len(sub) > 0 {
			an := make([]bool, len(sub))
			for i := range an {
				an[i] = true
			}
			forms = append(forms, an)
		}
		if len(sub) > 1 && !core.Quick(c.Tier) {
			mx := make([]bool, len(sub))
			mx[0] = true
			forms = append(forms, mx)
		}
		for _, f := range forms {
			names := []string{}
			for _, i := range sub {
				names = append(names, pool[i])
			}
			for _, tr := range trees {
				for _, v := range versions {
					for _, d := range drys {
						// deviation bound on the work tree: dirty trees only with <=1 tag in quick
						if core.Quick(c.Tier) && tr != "clean" && len(sub) > 1 {
							continue
						}
						cases = append(cases, c20case{tags: names, annot: f, tree: tr, version: v, dry: d})
						// branches that carry the name of a tag: a branch is not a tag -- it neither counts as an
						// existing version nor may it keep the tool from creating or moving the tag of that name
						if tr == "clean" && len(sub) <= 1 && len(f) == 0 || tr == "clean" && len(sub) == 1 && !f[0] {
							for _, br := range [][]string{{"v1"}, {"v3"}, {"v1.9.1"}, {"v3", "v3.0.0"}, {"v1", "v1.10.1", "v2"}} {
								cases = append(cases, c20case{tags: names, annot: f, tree: tr, version: v, dry: d, branches: br})
							}
						}
					}
				}
			}
		}
	}
	outcomes := map[string]int{}
	outc := make([]string, len(cases))
	core.ParallelFor(len(cases), func(i int) {
		if c.Expired() {
			return
		}
		cs := cases[i]
		id := cs.id()
		root := filepath.Join(c.Scratch, "w", strconv.Itoa(i))
		repo := filepath.Join(root, "repo")
		defer os.RemoveAll(root)
		os.MkdirAll(root, 0o755)
		if r := core.Run("/", env, time.Minute, "", "cp", "-r", tmpl, repo); r.Exit != 0 {
			c.Harness("cp: %s", r.Stderr)
			return
		}
		os.WriteFile(filepath.Join(root, "mockery-tools.env"), []byte("VERSION="+cs.version+"\n"), 0o644)
		for k, t := range cs.tags {
			var err error
			if cs.annot[k] {
				_, err = git(repo, "tag", "-a", "-m", t, t, c1)
			} else {
				_, err = git(repo, "tag", t, c1)
			}
			if err != nil {
				c.Harness("%v", err)
				return
			}
		}
		for _, b := range cs.branches {
			if _, err := git(repo, "branch", b, c1); err != nil {
				c.Harness("%v", err)
				return
			}
		}
		switch cs.tree {
		case "untracked":
			os.WriteFile(filepath.Join(repo, "new.txt"), []byte("x"), 0o644)
		case "modified":
			os.WriteFile(filepath.Join(repo, "f.txt"), []byte("three\n"), 0o644)
		case "staged":
			os.WriteFile(filepath.Join(repo, "f.txt"), []byte("three\n"), 0o644)
			git(repo, "add", "f.txt")
		}
		snap := func() (refs map[string]string, head, status string) {
			refs = map[string]string{}
			out, _ := git(repo, "for-each-ref", "--format=%(refname) %(objectname) %(*objectname)")
			for _, l := range strings.Split(strings.TrimSpace(out), "\n") {
				f := strings.Fields(l)
				if len(f) >= 2 {
					commit := f[1]
					if len(f) == 3 {
						commit = f[2]
					}
					refs[f[0]] = f[1] + ">" + commit
				}
			}
			h, _ := git(repo, "rev-parse", "HEAD")
			st, _ := git(repo, "status", "--porcelain")
			return refs, strings.TrimSpace(h), st
		}
		refs0, head0, st0 := snap()
		args := []string{"tag"}
		switch cs.dry {
		case "true":
			args = append(args, "--dry-run=true")
		case "false":
			args = append(args, "--dry-run=false")
		}
		r := core.Run(repo, env, time.Minute, "", tools, args...)
		refs1, head1, st1 := snap()
		c.Ev.Add("transitions", 1)
		c.Ev.Add("evaluations", 1)
		c.Ev.Distinct("states", id)
		replay := map[string]any{"case": id, "tags_on_first_commit": cs.tags, "annotated": cs.annot, "branches_on_first_commit": cs.branches, "worktree": cs.tree, "VERSION": cs.version, "args": args,
			"exit": r.Exit, "refs_before": refs0, "refs_after": refs1, "stderr": firstN(r.Stderr, 500)}
		if core.ResourceFailure(r) {
			c.Skip("run timed out or was killed")
			return
		}
		if r.Panicked() {
			c.Report("crash:"+id, "tagger crashed: "+firstN(r.Stderr, 500), replay)
			return
		}
		// ---- reference model A8
		req := parseSV(cs.version)
		if strings.Count(strings.SplitN(strings.SplitN(strings.TrimPrefix(cs.version, "v"), "-", 2)[0], "+", 2)[0], ".") != 2 && req.ok {
			// requested versions are always written in full in this alphabet
		}
		unparsable := false
		prev := sv{ok: true}
		for _, t := range cs.tags {
			if len(strings.Split(t, ".")) < 3 {
				continue // not a full version tag
			}
			v := parseSV(t)
			if !v.ok {
				unparsable = true
				continue
			}
			if req.ok && v.maj == req.maj && cmpSV(v, prev) > 0 {
				prev = v
			}
		}
		mayTag := cs.dry == "false" && cs.tree == "clean" && req.ok && cmpSV(req, prev) > 0
		changed := !mapsEqual(refs0, refs1) || head0 != head1 || st0 != st1
		outcome := fmt.Sprintf("exit=%d changed=%v", r.Exit, changed)
		outc[i] = outcome
		if !mayTag {
			if changed {
				c.Report("mutated:"+id, fmt.Sprintf("refs/HEAD/status changed although tagging is not permitted (dry-run=%s tree=%s requested=%s previous=%v): before %v after %v", cs.dry, cs.tree, cs.version, prev, refs0, refs1), replay)
				return
			}
			// exit status must signal what happened
			switch {
			case !req.ok:
				if r.Exit == 0 {
					c.Report("exit:"+id, "unparsable VERSION but exit 0", replay)
				}
			case unparsable:
				// error or nothing-to-do or dry: don't care, refs unchanged is what matters
			case cmpSV(req, prev) <= 0:
				if r.Exit != 8 {
					c.Report("exit:"+id, fmt.Sprintf("requested version is not newer than %v: expected exit 8 (nothing to do), got %d", prev, r.Exit), replay)
				}
			case cs.tree != "clean":
				if r.Exit == 0 || r.Exit == 8 {
					c.Report("exit:"+id, fmt.Sprintf("dirty work tree: expected an error exit, got %d", r.Exit), replay)
				}
			default: // dry run on a clean tree with a newer version
				if r.Exit != 0 {
					c.Report("exit:"+id, fmt.Sprintf("dry run: expected exit 0, got %d: %s", r.Exit, firstN(r.Stderr, 300)), replay)
				}
			}
			return
		}
		// tagging permitted
		if unparsable && !changed && r.Exit != 0 {
			return // refusing because of a non-semver dotted tag is allowed ("only when", not "whenever")
		}
		full := fmt.Sprintf("v%d.%d.%d", req.maj, req.min, req.pat)
		if len(req.pre) > 0 {
			full += "-" + strings.Join(req.pre, ".")
		}
		if i := strings.IndexByte(cs.version, '+'); i >= 0 {
			full += cs.version[i:] // build metadata is part of the tag's name (it only never takes part in the ordering)
		}
		major := fmt.Sprintf("v%d", req.maj)
		want := map[string]string{}
		for k, v := range refs0 {
			want[k] = v
		}
		ok := r.Exit == 0 && head0 == head1 && st0 == st1
		for _, t := range []string{full, major} {
			got, present := refs1["refs/tags/"+t]
			if !present || !strings.HasSuffix(got, ">"+head0) {
				ok = false
			}
			delete(want, "refs/tags/"+t)
		}
		rest := map[string]string{}
		for k, v := range refs1 {
			if k != "refs/tags/"+full && k != "refs/tags/"+major {
				rest[k] = v
			}
		}
		if !ok || !mapsEqual(want, rest) {
			c.Report("tagging:"+id, fmt.Sprintf("expected exit 0 with exactly %s and %s pointing at HEAD %s and nothing else changed; exit=%d before %v after %v", full, major, head0[:8], r.Exit, refs0, refs1), replay)
			return
		}
		c.Ev.Distinct("distinct_nontrivial", id)
		if i%500 == 0 {
			c.Ev.Sample(replay)
		}
	})
	done := 0
	for _, o := range outc {
		if o != "" {
			outcomes[o]++
			done++
		}
	}
	c.Ev.Sample(map[string]any{"case": cases[len(cases)/2].id()})
	c.Ev.Set("traces_validated_against_impl", done)
	c.Ev.Set("distinct_outcomes", len(outcomes))
	c.Ev.Set("outcome_histogram", outcomes)
	c.Ev.Set("exhaustive", !c.Expired() && done == len(cases))
	c.Ev.Set("cases", len(cases))
	c.Ev.Set("bound", fmt.Sprintf("all subsets of size <=%d of the tag pool %v (lightweight / annotated%s) x work tree {clean,untracked,modified,staged} x VERSION %v x dry-run {absent,true,false}; quick restricts dirty trees to <=1 tag; clean trees with <=1 lightweight tag additionally with branches named like tags ({v1}, {v3}, {v1.9.1}, {v3,v3.0.0}, {v1,v1.10.1,v2})", maxSub, pool, map[bool]string{true: "", false: " / mixed"}[core.Quick(c.Tier)], versions))
	c.Ev.Set("rule", "scratch git repositories (two commits, tags on the first) built per case; the tools binary built from the working tree is run once; refs (object and peeled commit), HEAD and porcelain status are snapshotted before/after and compared with reference model A8; non-trivial = a case in which tagging is permitted and was verified to have happened exactly")
	c.Ev.Assume("git CLI as observer; an independent 60-line semver comparison as reference; refusing to tag because of a dotted non-semver tag is accepted (the property states necessary conditions only)")
	return nil
}

func mapsEqual(a, b map[string]string) bool {
	if len(a) != len(b) {
		return false
	}
	for k, v := range a {
		if b[k] != v {
			return false
		}
	}
	return true
}
