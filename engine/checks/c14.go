package checks

import (
	"fmt"
	"path/filepath"
	"regexp"
	"strings"
	"sync"

	"verif/engine/assets"
	"verif/engine/core"
	"verif/engine/gocheck"
	"verif/engine/shapes"
)

func init() { Registry["C14"] = C14 }

var tparamNameRe = regexp.MustCompile(`[\[,]\s*([^\s,\[\]]+)\s`)

func tparamNames(decl string) []string {
	var out []string
	for _, m := range tparamNameRe.FindAllStringSubmatch(decl, -1) {
		out = append(out, m[1])
	}
	return out
}

// c14Assertions writes generic check functions: inside them the re-emitted
// interface, the wrappers and the typed carriers are related to the source
// interface by plain assignments, which the type checker accepts only for
// identical types.
// a blank name in a type parameter list
var c14BlankTParam = regexp.MustCompile(`[\[ ,](_)[ ,\]]`)

func c14Assertions(g genCombo, cases []shapes.Case) (string, map[int]string) {
	var b strings.Builder
	lineCase := map[int]string{}
	pkg, q := "src", ""
	switch g.placement {
	case "exttest":
		pkg, q = "src_test", "src."
	case "separate":
		pkg, q = "mocks", "src."
	}
	fmt.Fprintf(&b, "package %s\n\nimport (\n\t\"io\"\n\n\t\"example.com/m/dep\"\n", pkg)
	if q != "" {
		b.WriteString("\t\"example.com/m/src\"\n")
	}
	b.WriteString(")\n\nvar (\n\t_ io.Reader\n\t_ dep.T\n)\n\n")
	line := strings.Count(b.String(), "\n") + 1
	w := func(cs shapes.Case, format string, a ...any) {
		s := fmt.Sprintf(format, a...)
		b.WriteString(s)
		for i := 0; i < strings.Count(s, "\n"); i++ {
			lineCase[line] = cs.Name
			line++
		}
	}
	for _, cs := range cases {
		inst := ""
		// the assertion function has to name every type parameter to instantiate the types it compares
		for i := 0; c14BlankTParam.MatchString(cs.TParamDecl); i++ {
			loc := c14BlankTParam.FindStringSubmatchIndex(cs.TParamDecl)
			cs.TParamDecl = cs.TParamDecl[:loc[2]] + fmt.Sprintf("Blank%d", i) + cs.TParamDecl[loc[3]:]
		}
		if cs.TypeParams > 0 {
			inst = "[" + strings.Join(tparamNames(cs.TParamDecl), ", ") + "]"
		}
		w(cs, "func chk_%s%s(x %s%s%s, re Re_%s%s, w1 W_%s%s, w2 W2_%s%s) {\n", cs.Name, cs.TParamDecl, q, cs.Name, inst, cs.Name, inst, cs.Name, inst, cs.Name, inst)
		w(cs, "\tvar _ Re_%s%s = x\n", cs.Name, inst)
		w(cs, "\tvar _ %s%s%s = re\n", q, cs.Name, inst)
		w(cs, "\tvar _ %s%s%s = w1\n", q, cs.Name, inst)
		w(cs, "\tvar _ %s%s%s = w2\n", q, cs.Name, inst)
		for _, m := range cs.Methods {
			w(cs, "\t{\n\t\tvar c Car_%s_%s%s\n", cs.Name, m, inst)
			w(cs, "\t\tc.Ell = x.%s\n", m)
			w(cs, "\t\tc.Sig = x.%s\n", m)
			if !cs.Variadic[m] {
				w(cs, "\t\tc.Plain = x.%s\n", m)
			}
			w(cs, "\t\t_ = c\n\t}\n")
		}
		w(cs, "}\n")
	}
	return b.String(), lineCase
}

func C14(c *core.Ctx) error {
	if err := c.BuildMockery(); err != nil {
		return err
	}
	quick := core.Quick(c.Tier)
	depth := 1
	if !quick {
		depth = 2
	}
	all := shapes.Corpus(shapes.Options{Depth: depth, Names: true, Forms: true, NamePairs: true})
	tdir := filepath.Join(c.Scratch, "c14t")
	core.WriteTree(tdir, map[string]string{"probe.templ": assets.Must("c14/probe.templ")})
	// replace-type towards an ALIAS of the original type: every string the data model offers still has to denote the
	// source signature's types (an alias is identical to its target), whatever else the setting does internally
	extra := core.M{"require-template-schema-exists": false,
		"replace-type": core.M{core.ModPath + "/dep3": core.M{"T": core.M{"pkg-path": core.ModPath + "/dep3alias", "type-name": "T"}}}}
	aliasFiles := map[string]string{"dep3alias/a.go": "package dep3alias\n\nimport dep \"example.com/m/dep3\"\n\n// T is dep3's T under another name\ntype T = dep.T\n"}
	var combos []genCombo
	for _, p := range []string{"inpkg-test", "exttest", "separate"} {
		for _, f := range []string{"noop", "gofmt"} {
			combos = append(combos, genCombo{template: "file://" + filepath.Join(tdir, "probe.templ"), data: core.M{}, formatter: f, placement: p, extraCfg: extra, dataName: "probe"})
		}
	}
	// one probe output per interface as well (fresh import registry per interface); identity assertions are
	// only written in batch mode, here the output must compile
	combos = append(combos, genCombo{template: "file://" + filepath.Join(tdir, "probe.templ"), data: core.M{}, formatter: "noop", placement: "inpkg-test", extraCfg: extra, dataName: "probe", perFile: true},
		genCombo{template: "file://" + filepath.Join(tdir, "probe.templ"), data: core.M{}, formatter: "noop", placement: "separate", extraCfg: extra, dataName: "probe", perFile: true})
	knownCase := map[string]bool{}
	for _, k := range c.KnownKeys() {
		knownCase[strings.SplitN(k, "|", 2)[0]] = true
	}
	var mu sync.Mutex
	decided, checks := 0, 0
	const chunkSize = 350
	nChunks := (len(all) + chunkSize - 1) / chunkSize
	core.ParallelFor(len(combos)*nChunks, func(j int) {
		i, ch := j/nChunks, j%nChunks
		g := combos[i]
		gname := fmt.Sprintf("probe %s %s", g.formatter, g.placement)
		if g.perFile {
			gname += " file-per-interface"
		}
		for _, part := range []string{"main", "quarantine"} {
			var cases []shapes.Case
			for k, cs := range all {
				if k/chunkSize != ch || (cs.InPkgOnly && !g.inPackage()) {
					continue
				}
				// a type parameter named like the source package cannot coexist with the source-package qualifier
				// in one declaration; the statement does not cover it
				if cs.ID == "name:typeparam:src" && !g.inPackage() {
					continue
				}
				if knownCase[cs.ID] != (part == "quarantine") {
					continue
				}
				cases = append(cases, cs)
			}
			if len(cases) == 0 {
				continue
			}
			byName := map[string]shapes.Case{}
			for _, cs := range cases {
				byName[cs.Name] = cs
			}
			o, m, err := genRun(c, g, cases, "", aliasFiles, true)
			if err == errResources {
				c.Skip("%s: %v", gname, err)
				return
			}
			if err != nil {
				c.Harness("%s: %v", gname, err)
				return
			}
			if o.panicked || o.exit != 0 {
				c.Report(fmt.Sprintf("generate|%s", gocheck.Signature(lastErrLine(o.stderr))), fmt.Sprintf("[%s] mockery failed rendering the probe template (exit %d): %s", gname, o.exit, firstN(o.stderr, 600)), map[string]any{"combo": gname})
				m.Remove()
				return
			}
			// errors of the probe output itself (before the assertions are added)
			by, rest := attribute(o, g.outFile())
			failed := map[string]bool{}
			for n, e := range by {
				failed[n] = true
				cs := byName[n]
				c.Report(fmt.Sprintf("%s|probe-output|%s", cs.ID, gocheck.Signature(e.Msg)),
					fmt.Sprintf("[%s] interface %q: Go source assembled from the data model's strings does not compile: %s\n%s", gname, cs.ID, firstN(e.Msg, 300), cs.Decl),
					map[string]any{"combo": gname, "case": cs.ID, "decl": cs.Decl, "error": e.String()})
			}
			for _, e := range rest {
				c.Report(fmt.Sprintf("file|probe-output|%s", gocheck.Signature(e.Msg)), fmt.Sprintf("[%s] probe output does not compile (not attributable to one interface): %s", gname, e), map[string]any{"combo": gname})
			}
			if g.perFile {
				mu.Lock()
				decided += len(cases) - len(failed)
				mu.Unlock()
				m.Remove()
				continue
			}
			// each method exactly once, accessor flags consistent
			seen := map[string]int{}
			for _, l := range strings.Split(o.text, "\n") {
				if strings.HasPrefix(l, "// ACCESSORS|") {
					f := strings.Split(l, "|")
					seen[f[1]+"."+f[2]]++
					cs := byName[f[1]]
					if want := fmt.Sprintf("variadic=%v", cs.Variadic[f[2]]); f[3] != want && cs.Name != "" {
						c.Report(fmt.Sprintf("%s|isvariadic", cs.ID), fmt.Sprintf("[%s] interface %q method %s: IsVariadic reports %s, source says %s", gname, cs.ID, f[2], f[3], want), map[string]any{"case": cs.ID, "decl": cs.Decl})
					}
				}
			}
			for _, cs := range cases {
				for _, mn := range cs.Methods {
					if seen[cs.Name+"."+mn] != 1 {
						c.Report(fmt.Sprintf("%s|method-count|%s=%d", cs.ID, mn, seen[cs.Name+"."+mn]), fmt.Sprintf("[%s] interface %q: method %s is listed %d times in the data model (want once)\n%s", gname, cs.ID, mn, seen[cs.Name+"."+mn], cs.Decl), map[string]any{"case": cs.ID, "decl": cs.Decl})
						failed[cs.Name] = true
					}
				}
			}
			// identity assertions for the cases whose probe output compiles
			var ok []shapes.Case
			for _, cs := range cases {
				if !failed[cs.Name] {
					ok = append(ok, cs)
				}
			}
			if len(rest) == 0 {
				src, lineCase := c14Assertions(g, ok)
				af := strings.Replace(g.assertFile(), "zz_assert", "zz_c14", 1)
				core.WriteTree(m.Dir, map[string]string{af: src})
				// drop failing cases' text? they stay in the file: errors there are already reported; only assertion-file errors count now
				_, errs, lerr := gocheck.Load(m.Dir, core.UserEnv(), "", true, "./src/...", "./mocks/...")
				if lerr != nil {
					c.Harness("%s: %v", gname, lerr)
				}
				lines := strings.Split(src, "\n")
				bad := map[string]bool{}
				for _, e := range errs {
					if e.File != af {
						continue
					}
					n, okk := lineCase[e.Line]
					if !okk || bad[n] {
						continue
					}
					bad[n] = true
					cs := byName[n]
					c.Report(fmt.Sprintf("%s|identity|%s", cs.ID, gocheck.Signature(e.Msg)),
						fmt.Sprintf("[%s] interface %q: a string offered by the data model denotes a different type than the source signature: `%s`: %s\n%s", gname, cs.ID, strings.TrimSpace(lines[e.Line-1]), firstN(e.Msg, 300), cs.Decl),
						map[string]any{"combo": gname, "case": cs.ID, "decl": cs.Decl, "assertion": strings.TrimSpace(lines[e.Line-1])})
				}
				mu.Lock()
				decided += len(ok) - len(bad)
				checks += len(lineCase)
				mu.Unlock()
			}
			if part == "main" && j%5 == 0 {
				c.Ev.Sample(map[string]any{"combo": gname, "interfaces": len(cases), "example": cases[(j*13)%len(cases)].ID})
			}
			m.Remove()
		}
	})
	c.Ev.Set("states", decided)
	c.Ev.Set("evaluations", checks)
	c.Ev.Set("traces_validated_against_impl", checks)
	c.Ev.Set("distinct_nontrivial", len(all))
	c.Ev.Set("combos", len(combos))
	c.Ev.Set("exhaustive", true)
	c.Ev.Assume("a type parameter named like the source package is left out for out-of-package placements (it cannot coexist with the source-package qualifier in one declaration)")
	c.Ev.Set("rule", "the C01 corpus (type shapes, signature and interface forms, identifier alphabets as parameter/result/type-parameter names, identifier x type pairs) is rendered through a probe template that assembles Go source purely from the data model: the interface re-declared from Declaration + TypeConstraint, a struct of typed carriers for every string accessor (ArgTypeListEllipsis, Signature, ArgTypeList, MethodArg, TypeString*, ReturnArgTypeList), two forwarding wrappers built from ArgList/ReturnArgList/Call/ArgCallList/ReturnStatement, imports exactly as reported; in-package, _test package and separate package, formatter noop and gofmt. The output must type-check, and generic check functions written next to it assign source methods to the carriers and the re-declared interface / wrappers to the source interface and back: go/types accepts these only if the denoted types are identical (variadic-ness included). states = (placement, interface) pairs fully decided")
	return nil
}
