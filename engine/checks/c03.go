package checks

import (
	"encoding/json"
	"fmt"
	"strings"
	"sync"
	"time"

	"verif/engine/core"
)

func init() { Registry["C03"] = C03 }

type c03Result struct {
	Methods           int `json:"methods"`
	Histories         int `json:"histories"`
	Steps             int `json:"steps"`
	Terminal          int `json:"terminal_histories"`
	Outcomes          int `json:"distinct_outcomes"`
	DeepMethods       int `json:"deep_methods"`
	SkippedByDeadline int `json:"skipped_by_deadline"`
	Violations        []struct {
		Iface  string   `json:"iface"`
		Method string   `json:"method"`
		Decl   string   `json:"decl"`
		Ops    []string `json:"ops"`
		What   string   `json:"what"`
		Sig    string   `json:"sig"`
	} `json:"violations"`
	Samples []string `json:"samples"`
}

// one method per branch of the template (arity, results, error position, nillable kinds, variadic forms, a captured name)
const c03Deep = "^(Base|NoArgsNoRes|NoRes|Two|Res2ErrFirst|Res3ErrMid|ResErrErr|ResNillables|P_reader|P_func|R_error|R_ptr|R_struct|V_int|V1_string|V2_any|V2_reader|VRes3|VOnlyErr|Unnamed|NB0_ok|NV3_args)$"

var c03HostileNames = []string{"ok", "ret", "run", "args", "_c", "_e", "_mock", "mock", "returnFunc", "r0", "r1", "tmpRet", "_va", "_ca", "_i", "variadicArgs", "i", "a"}

func C03(c *core.Ctx) error {
	if err := c.BuildMockery(); err != nil {
		return err
	}
	quick := core.Quick(c.Tier)
	ifaces := corpus(c03HostileNames, !quick)
	type variant struct {
		name   string
		data   core.M
		unroll bool
		mixed  string // "" | "mixed" (set on every other interface) | "mixed+root" (set at the top level, switched off on every other interface)
	}
	variants := []variant{{"unroll-variadic=unset", core.M{}, false, ""}, {"unroll-variadic=true", core.M{"unroll-variadic": true}, true, ""}}
	if !quick {
		variants = append(variants, variant{"unroll-variadic=false", core.M{"unroll-variadic": false}, false, ""})
	}
	// the interfaces with variadic methods in ONE file, unroll-variadic: true on every other one (interface level):
	// what one interface's setting switches on must not carry over to the next one rendered
	var variadicIfaces []corpIface
	for _, it := range corpus(nil, !quick) {
		for _, m := range it.Methods {
			if m.Variadic {
				variadicIfaces = append(variadicIfaces, it)
				break
			}
		}
	}
	variants = append(variants, variant{"unroll-variadic=true on every other interface of one file", core.M{"unroll-variadic": true}, false, "mixed"},
		variant{"unroll-variadic=true at the top level, false on every other interface of one file", core.M{"unroll-variadic": true}, false, "mixed+root"})
	const nshard = 16
	type built struct {
		v variant
		b *drvBuildResult
	}
	builds := make([]*built, len(variants))
	core.ParallelFor(len(variants), func(i int) {
		v := variants[i]
		level, vIfaces := "root", ifaces
		var flags func(it corpIface) string
		if v.mixed != "" {
			level, vIfaces = v.mixed, variadicIfaces
			pos := map[string]int{}
			for k, it := range variadicIfaces {
				pos[it.Name] = k
			}
			flags = func(it corpIface) string {
				return fmt.Sprintf("Flags: map[string]bool{\"unroll\": %v}", (pos[it.Name]%2 == 0) == (v.mixed == "mixed"))
			}
		}
		b, err := drvBuild(c, fmt.Sprintf("c03-%d", i), "testify", v.data, level, vIfaces, "c03/main.go.txt", func(it corpIface) string {
			return fmt.Sprintf("func(t *recT) any { return p.NewMock%s(t) }", it.Name)
		}, flags)
		if err != nil {
			c.Harness("%s: %v", v.name, err)
			return
		}
		if b.genErr != "" {
			c.Report("generate:"+v.name, "mockery failed on the method corpus with "+v.name+": "+b.genErr, map[string]any{"variant": v.name})
			return
		}
		builds[i] = &built{v, b}
	})
	type job struct {
		bi, shard int
	}
	var jobs []job
	for i, b := range builds {
		if b == nil {
			continue
		}
		for s := 0; s < nshard; s++ {
			jobs = append(jobs, job{i, s})
		}
	}
	var mu sync.Mutex
	total := c03Result{}
	skippedAll := map[string]bool{}
	done := 0
	core.ParallelFor(len(jobs), func(j int) {
		b := builds[jobs[j].bi]
		// quick: every method to depth 2, a representative slice (one method per template branch) to depth 3;
		// thorough: every method to depth 3 over the full alphabet, the representative slice to depth 4
		args := []string{"-depth=2", "-deepdepth=3", "-deep=" + c03Deep, fmt.Sprintf("-shard=%d", jobs[j].shard), fmt.Sprintf("-nshard=%d", nshard),
			fmt.Sprintf("-deadline=%d", int(time.Until(c.Deadline).Seconds()*0.85))}
		if !quick {
			args[0], args[1] = "-depth=3", "-deepdepth=4"
			if b.v.name != "unroll-variadic=false" {
				args = append(args, "-full")
			}
		}
		if b.v.unroll {
			args = append(args, "-unroll")
		}
		r := core.Run(b.b.dir, core.UserEnv(), 60*time.Minute, "", b.b.bin, args...)
		if core.ResourceFailure(r) {
			c.Skip("driver run timed out or was killed: %v", args)
			return
		}
		var res c03Result
		if r.Exit != 0 || json.Unmarshal([]byte(lastLine(r.Stdout)), &res) != nil {
			c.Report("driver:"+b.v.name+":"+panicSig(r.Stderr), fmt.Sprintf("driver terminated abnormally on mocks generated with %s: %s", b.v.name, firstN(r.Stderr, 900)), map[string]any{"variant": b.v.name, "args": args})
			return
		}
		mu.Lock()
		defer mu.Unlock()
		done++
		total.Methods += res.Methods
		total.Histories += res.Histories
		total.Steps += res.Steps
		total.Terminal += res.Terminal
		total.Outcomes += res.Outcomes
		total.DeepMethods += res.DeepMethods
		total.SkippedByDeadline += res.SkippedByDeadline
		for _, s := range b.b.skipped {
			skippedAll[b.v.name+": "+s] = true
		}
		for _, s := range res.Samples {
			c.Ev.Sample(b.v.name + ": " + s)
		}
		for _, vi := range res.Violations {
			key := fmt.Sprintf("%s:%s:%s:%s", vi.Sig, b.v.name, vi.Decl, strings.Join(vi.Ops, ";"))
			c.Report(key, fmt.Sprintf("[%s] %s.%s after %v: %s", b.v.name, vi.Iface, vi.Decl, vi.Ops, vi.What),
				map[string]any{"variant": b.v.name, "iface": vi.Iface, "method": vi.Decl, "ops": vi.Ops, "what": vi.What, "rerun": "driver -only " + vi.Iface + "." + vi.Method})
		}
	})
	c.Ev.Set("rendered_type_twins", c03RenderedTypeTwins(c))
	c.Ev.Set("states", total.Outcomes)
	c.Ev.Set("transitions", total.Steps)
	c.Ev.Set("traces_validated_against_impl", total.Histories)
	c.Ev.Set("evaluations", total.Histories)
	c.Ev.Set("distinct_nontrivial", total.Outcomes)
	c.Ev.Set("methods_x_variants", total.Methods)
	c.Ev.Set("histories_ended_by_test_failure_or_panic", total.Terminal)
	c.Ev.Set("corpus_interfaces", len(ifaces))
	c.Ev.Set("skipped_uncompilable_mocks", core.SortedKeys(skippedAll))
	c.Ev.Set("exhaustive", done == len(jobs) && len(jobs) == len(variants)*nshard && total.SkippedByDeadline == 0)
	c.Ev.Set("methods_explored_one_level_deeper", total.DeepMethods)
	c.Ev.Set("methods_skipped_by_deadline", total.SkippedByDeadline)
	c.Ev.Set("bound", map[bool]string{true: "every method: all histories to depth 2, representative methods (one per template branch): depth 3 (without the zero-tuple pattern); 45 symbols (3 call tuples + 7 setup styles x {exact(a0), Anything, exact(zero tuple / no variadic arguments)} x {unlimited, Once}); unroll-variadic unset and true, plus true on every other interface of one shared file", false: "every method: depth 3 over 87 symbols (adds exact(a2) patterns and Times(2)) for unroll-variadic unset/true, 45 symbols for false; representative methods: depth 4; full variadic element-type set"}[quick])
	c.Ev.Set("rule", "for every corpus method and unroll-variadic setting: every sequence up to the depth over {call with 3 argument tuples (distinct / zero,nil,empty variadic / variadic with a nil element)} and {register an expectation through EXPECT() in one of 7 styles (Return, Return(zero/nil), Run+Return, RunAndReturn, whole-function provider, per-result providers, no return values) x argument pattern x repetition}, followed by the registered cleanup; each history runs on a fresh generated mock and on a shadow raw testify mock.Mock that receives the same registrations (argument layout per the documented unroll rule) and decides which expectation serves each call; compared: results = that expectation's values, callbacks/providers ran exactly once with the call's arguments and no other callback ran, unmatched call => FailNow, no return values => panic naming the method, cleanup reports unmet expectations iff raw testify does; rendered-type twins: for 8 pairs of types differing in nillability x unroll-variadic, the mock of methods whose types are swapped by replace-type equals byte for byte the mock of the twin declared with the replacement type; states = distinct (method, history shape, reported-error count) outcomes")
	c.Ev.Assume("testify v1.10.0 itself is the reference for expectation matching and Once/Times bookkeeping")
	c.Ev.Assume("func-typed parameters are matched with mock.Anything (testify refuses func values in expectations); a history ends at the first test failure or panic")
	return nil
}

// c03RenderedTypeTwins: what the generated mock does with a result or parameter (nil guard, zero value, variadic
// handling) follows the type it is RENDERED with. A method whose types are swapped through replace-type must get,
// byte for byte, the mock of the twin method declared with the replacement types directly. Pairs are chosen so
// that original and replacement differ in nillability in both directions.
func c03RenderedTypeTwins(c *core.Ctx) int {
	P := core.ModPath + "/p"
	decls := "type S struct{ N int }\n\ntype RI interface{ Foo() int }\n\ntype SL []int\n\ntype AR [2]int\n\ntype FN func() error\n\ntype MP map[string]int\n\ntype CH chan int\n\n"
	pairs := [][2]string{{"S", "RI"}, {"RI", "S"}, {"SL", "AR"}, {"AR", "SL"}, {"S", "FN"}, {"MP", "S"}, {"AR", "CH"}, {"RI", "MP"}}
	// x: the type at the positions replace-type rewrites (exactly the named type); the variadic element is of type
	// []orig, which is not such a position and keeps the original type in the twin too
	iface := func(x, orig string) string {
		return fmt.Sprintf("type T interface {\n\tR1(a int) (r0 %s, r1 error)\n\tR2() (r0 error, r1 %s, r2 %s)\n\tP1(a0 %s, a1 string) (r0 bool)\n\tV1(a0 string, v ...%s) (r0 %s)\n\tOnly() (r0 %s)\n}\n", x, x, x, x, orig, x, x)
	}
	agreed := 0
	var mu sync.Mutex
	type job struct {
		pair   [2]string
		unroll bool
	}
	var jobs []job
	for _, pr := range pairs {
		jobs = append(jobs, job{pr, false}, job{pr, true})
	}
	core.ParallelFor(len(jobs), func(i int) {
		j := jobs[i]
		id := fmt.Sprintf("rendered-type twin %s -> %s, unroll-variadic=%v", j.pair[0], j.pair[1], j.unroll)
		gen := func(tag, x string, with bool) (string, core.Result, error) {
			pc := core.M{"all": true}
			if with {
				pc["replace-type"] = core.M{P: core.M{j.pair[0]: core.M{"pkg-path": P, "type-name": j.pair[1]}}}
			}
			cfg := core.M{"template": "testify", "formatter": "noop", "log-level": "error", "dir": "{{.InterfaceDir}}", "filename": "mocks_gen_test.go", "force-file-write": true,
				"template-data": core.M{"unroll-variadic": j.unroll}, "include-interface-regex": "^T$", "packages": core.M{P: core.M{"config": core.M{"replace-type": pc["replace-type"]}}}}
			if !with {
				cfg["packages"] = core.M{P: core.M{}}
			}
			m, err := c.NewModule(fmt.Sprintf("c03-twin-%d-%s", i, tag), map[string]string{"p/p.go": "package p\n\n" + decls + iface(x, j.pair[0]), ".mockery.yml": core.YAML(cfg)})
			if err != nil {
				return "", core.Result{}, err
			}
			defer m.Remove()
			r := c.RunMockery(m.Dir, nil)
			txt, _ := m.Read("p/mocks_gen_test.go")
			return txt, r, nil
		}
		a, ra, err := gen("a", j.pair[0], true)
		if err != nil {
			c.Harness("%v", err)
			return
		}
		b, rb, err := gen("b", j.pair[1], false)
		if err != nil {
			c.Harness("%v", err)
			return
		}
		if core.ResourceFailure(ra) || core.ResourceFailure(rb) {
			c.Skip("%s: run gave up for lack of resources", id)
			return
		}
		replay := map[string]any{"case": id, "source_with_original_type": decls + iface(j.pair[0], j.pair[0]), "replace_type": j.pair}
		if rb.Exit != 0 || b == "" {
			c.Harness("twin without replace-type failed (%s): %s", id, firstN(rb.Stderr, 300))
			return
		}
		if ra.Exit != 0 {
			c.Report("twin-generate:"+id, fmt.Sprintf("%s: mockery fails with replace-type (exit %d): %s", id, ra.Exit, firstN(ra.Stderr, 300)), replay)
			return
		}
		if a != b {
			c.Report("twin:"+id, fmt.Sprintf("%s: the mock generated with replace-type differs from the mock of the twin declared with the replacement type: %s", id, firstDiffLine(b, a)), replay)
			return
		}
		mu.Lock()
		agreed++
		mu.Unlock()
	})
	return agreed
}
