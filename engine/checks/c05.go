package checks

import (
	"encoding/json"
	"fmt"
	"os"
	"path/filepath"
	"strings"
	"sync"
	"time"

	"verif/engine/assets"
	"verif/engine/core"
	"verif/engine/sched"
)

func init() { Registry["C05"] = C05 }

const c05iface = `package p

type I interface {
	A(x int)
	B(s string, v ...int) int
}
`

// the testify harness also has a method whose only parameter is variadic over an interface type
const c05ifaceTestify = `package p

type I interface {
	A(x int)
	B(s string, v ...int) int
	L(v ...any)
}
`

// methods without parameters (empty call records)
const c05ifaceNoParams = `package p

type I interface {
	A()
	B() int
}
`

const c05HarnessMod = `module example.com/m

go 1.23

require (
	github.com/anishathalye/porcupine v1.3.0
	github.com/stretchr/testify v1.10.0
	verifrt v0.0.0
)

replace verifrt => ./verifrt
`

type c05Violation struct {
	Scenario string   `json:"scenario"`
	Threads  [][]int  `json:"threads"`
	Choices  []int    `json:"choices"`
	What     string   `json:"what"`
	Steps    []string `json:"steps"`
	Sig      string   `json:"sig"`
}

type c05Result struct {
	Scenarios    int            `json:"scenarios"`
	Executions   int            `json:"executions"`
	Points       int            `json:"max_points"`
	Outcomes     int            `json:"distinct_outcomes"`
	MultiOutcome int            `json:"scenarios_with_several_outcomes"`
	Capped       int            `json:"scenarios_capped"`
	ReplayChecks int            `json:"replay_checks"`
	TimedOut     bool           `json:"timed_out"`
	Violations   []c05Violation `json:"violations"`
	Samples      []string       `json:"samples"`
}

// c05Build generates a mock with the working tree's mockery, instruments it and
// builds the harness. Returns the harness binary.
func c05Build(c *core.Ctx, name, template string, data core.M, mainAsset string, patchTestify bool, ifaceSrc, ifaceAsset string) (string, *sched.Report, string, error) {
	cfg := core.M{
		"template": template, "formatter": "goimports", "force-file-write": true, "log-level": "error",
		"dir": "{{.InterfaceDir}}", "filename": "mock_gen.go", "pkgname": "p", "structname": "MockI",
		"template-data": data,
		"packages":      core.M{core.ModPath + "/p": core.M{"interfaces": core.M{"I": core.M{}}}},
	}
	m, err := c.NewModule(name, map[string]string{"p/p.go": ifaceSrc, ".mockery.yml": core.YAML(cfg)})
	if err != nil {
		return "", nil, "", err
	}
	r := c.RunMockery(m.Dir, nil)
	gen, ok := m.Read("p/mock_gen.go")
	if r.Exit != 0 || !ok {
		return "", nil, "", fmt.Errorf("GENFAIL: mockery exit %d generating the %s mock: %s", r.Exit, template, firstN(r.Stderr+r.Stdout, 600))
	}
	src, rep, err := sched.Instrument(m.Dir, core.UserEnv(), core.ModPath+"/p", "mock_gen.go", false)
	if err != nil {
		return "", nil, gen, fmt.Errorf("generated %s mock cannot be instrumented: %v", template, err)
	}
	files := map[string]string{
		"go.mod":                  c05HarnessMod,
		"p/mock_gen.go":           string(src),
		"verifrt/go.mod":          "module verifrt\n\ngo 1.23\n",
		"verifrt/vrt/vrt.go":      assets.Must("c05/vrt.go.txt"),
		"verifrt/vsync/vsync.go":  assets.Must("c05/vsync.go.txt"),
		"main.go":                 assets.Must(mainAsset),
	}
	if ifaceAsset != "" {
		files["iface.go"] = assets.Must(ifaceAsset)
	}
	if patchTestify {
		// scratch copy of testify whose mock.go takes its mutex from vsync
		src := filepath.Join(gomodcache(), "github.com/stretchr/testify@v1.10.0")
		dst := filepath.Join(m.Dir, "testify")
		rr := core.Run("/", os.Environ(), time.Minute, "", "rsync", "-a", "--chmod=u+w", "--exclude", "*_test.go", src+"/", dst+"/")
		if rr.Exit != 0 {
			return "", nil, gen, fmt.Errorf("copy testify: %s", rr.Stderr)
		}
		mp := filepath.Join(dst, "mock/mock.go")
		b, err := os.ReadFile(mp)
		if err != nil {
			return "", nil, gen, err
		}
		s := string(b)
		if !strings.Contains(s, "\t\"sync\"\n") {
			return "", nil, gen, fmt.Errorf("testify mock.go: sync import not found")
		}
		s = strings.Replace(s, "\t\"sync\"\n", "\tsync \"verifrt/vsync\"\n", 1)
		os.WriteFile(mp, []byte(s), 0o644)
		gm, _ := os.ReadFile(filepath.Join(dst, "go.mod"))
		os.WriteFile(filepath.Join(dst, "go.mod"), append(gm, []byte("\nrequire verifrt v0.0.0\n")...), 0o644)
		files["go.mod"] = c05HarnessMod + "\nreplace github.com/stretchr/testify => ./testify\n"
	}
	if err := core.WriteTree(m.Dir, files); err != nil {
		return "", nil, gen, err
	}
	bin := filepath.Join(c.Scratch, "bin", name)
	rb := core.Run(m.Dir, core.UserEnv(), 10*time.Minute, "", "go", "build", "-o", bin, ".")
	if rb.Exit != 0 {
		return "", rep, gen, fmt.Errorf("GENFAIL: harness with the generated %s mock does not build: %s", template, firstN(rb.Stderr, 1200))
	}
	return bin, rep, gen, nil
}

func gomodcache() string {
	if v := os.Getenv("GOMODCACHE"); v != "" {
		return v
	}
	r := core.Run("/", os.Environ(), 20*time.Second, "", "go", "env", "GOMODCACHE")
	return strings.TrimSpace(r.Stdout)
}

type c05Variant struct {
	name     string
	template string
	data     core.M
	asset    string
	testify  bool
	args     []string
	ifaceSrc string
	ifaceAst string
}

func C05(c *core.Ctx) error {
	if err := c.BuildMockery(); err != nil {
		return err
	}
	quick := core.Quick(c.Tier)
	variants := []c05Variant{
		{"matryer", "matryer", core.M{"with-resets": true}, "c05/matryer_main.go.txt", false, nil, c05iface, "c05/iface_i.go.txt"},
		{"matryer-stub", "matryer", core.M{"with-resets": true, "stub-impl": true}, "c05/matryer_main.go.txt", false, []string{"-stub"}, c05iface, "c05/iface_i.go.txt"},
		{"matryer-noparams", "matryer", core.M{"with-resets": true}, "c05/matryer_main.go.txt", false, nil, c05ifaceNoParams, "c05/iface_j.go.txt"},
		{"testify", "testify", core.M{}, "c05/testify_main.go.txt", true, nil, c05ifaceTestify, ""},
		{"testify-unroll", "testify", core.M{"unroll-variadic": true}, "c05/testify_main.go.txt", true, []string{"-unroll"}, c05ifaceTestify, ""},
	}
	type runSpec struct {
		v     c05Variant
		bin   string
		bound int
		t2, t3 int
		shard, nshard int
	}
	var specs []runSpec
	bins := map[string]string{}
	var bmu sync.Mutex
	core.ParallelFor(len(variants), func(i int) {
		v := variants[i]
		bin, rep, gen, err := c05Build(c, "c05-"+v.name, v.template, v.data, v.asset, v.testify, v.ifaceSrc, v.ifaceAst)
		if err != nil {
			if strings.HasPrefix(err.Error(), "GENFAIL") {
				c.Report("build:"+v.name, err.Error(), map[string]any{"variant": v.name, "generated": gen})
			} else {
				c.Harness("%s: %v", v.name, err)
			}
			return
		}
		bmu.Lock()
		bins[v.name] = bin
		bmu.Unlock()
		c.Ev.Set("instrumented_accesses_"+v.name, rep.Accesses)
		if !v.testify && len(rep.Accesses) == 0 {
			c.Harness("%s: instrumenter found no shared accesses in the matryer mock (vacuous)", v.name)
		}
	})
	if len(bins) == 0 {
		return nil
	}
	for _, v := range variants {
		bin, ok := bins[v.name]
		if !ok {
			continue
		}
		if quick {
			specs = append(specs, runSpec{v, bin, 2, 2, 1, 0, 1})
		} else {
			// thorough: bound 3 on the quick scenario set, then unbounded on it, plus longer programs at bound 2
			for sh := 0; sh < 4; sh++ {
				specs = append(specs, runSpec{v, bin, -1, 2, 1, sh, 4})
			}
			for sh := 0; sh < 4; sh++ {
				specs = append(specs, runSpec{v, bin, 2, 2, 2, sh, 4})
			}
		}
	}
	if quick {
		// shard the quick runs 4 ways each
		var s2 []runSpec
		for _, s := range specs {
			for sh := 0; sh < 4; sh++ {
				s.shard, s.nshard = sh, 4
				s2 = append(s2, s)
			}
		}
		specs = s2
	}
	var mu sync.Mutex
	total := c05Result{}
	exhaustive := true
	perVariant := map[string]*c05Result{}
	remaining := time.Until(c.Deadline)
	core.ParallelFor(len(specs), func(i int) {
		s := specs[i]
		args := append([]string{}, s.v.args...)
		args = append(args, fmt.Sprintf("-bound=%d", s.bound), fmt.Sprintf("-t2len=%d", s.t2), fmt.Sprintf("-t3len=%d", s.t3),
			fmt.Sprintf("-shard=%d", s.shard), fmt.Sprintf("-nshard=%d", s.nshard), fmt.Sprintf("-deadline=%d", int(remaining.Seconds()*0.8)))
		r := core.Run(c.Scratch, append(core.UserEnv(), "GOMAXPROCS=2"), remaining+time.Minute, "", s.bin, args...)
		if core.ResourceFailure(r) {
			c.Skip("harness %s %v timed out or was killed", s.v.name, args)
			return
		}
		var res c05Result
		if r.Exit != 0 || json.Unmarshal([]byte(lastLine(r.Stdout)), &res) != nil {
			c.Harness("c05 harness %s %v: exit %d: %s", s.v.name, args, r.Exit, firstN(r.Stderr+r.Stdout, 800))
			return
		}
		mu.Lock()
		defer mu.Unlock()
		pv := perVariant[s.v.name]
		if pv == nil {
			pv = &c05Result{}
			perVariant[s.v.name] = pv
		}
		for _, t := range []*c05Result{&total, pv} {
			t.Scenarios += res.Scenarios
			t.Executions += res.Executions
			t.Outcomes += res.Outcomes
			t.MultiOutcome += res.MultiOutcome
			t.Capped += res.Capped
			t.ReplayChecks += res.ReplayChecks
			if res.Points > t.Points {
				t.Points = res.Points
			}
		}
		if res.TimedOut || res.Capped > 0 {
			exhaustive = false
		}
		for _, smp := range res.Samples {
			c.Ev.Sample(s.v.name + " bound=" + fmt.Sprint(s.bound) + ": " + smp)
		}
		for _, v := range res.Violations {
			key := fmt.Sprintf("%s:%s:%s", s.v.name, v.Sig, v.Scenario)
			c.Report(key, fmt.Sprintf("[%s, preemption bound %d] %s\n schedule: %s", s.v.name, s.bound, v.What, strings.Join(v.Steps, " ")),
				map[string]any{"variant": s.v.name, "threads": v.Threads, "choices": v.Choices, "what": v.What, "steps": v.Steps, "harness_args": s.v.args,
					"how": "mcx rebuilds the harness from the working tree; run it with -replay '{\"threads\":...,\"choices\":...}'"})
		}
	})
	c.Ev.Set("states", total.Outcomes)
	c.Ev.Set("transitions", total.Executions)
	c.Ev.Set("traces_validated_against_impl", total.Executions)
	c.Ev.Set("evaluations", total.Executions)
	c.Ev.Set("distinct_nontrivial", total.MultiOutcome)
	c.Ev.Set("distinct_outcomes", total.Outcomes)
	c.Ev.Set("scenarios", total.Scenarios)
	c.Ev.Set("max_scheduling_points", total.Points)
	c.Ev.Set("determinism_replays", total.ReplayChecks)
	c.Ev.Set("per_variant", perVariant)
	c.Ev.Set("exhaustive", exhaustive && len(bins) == len(variants))
	if quick {
		c.Ev.Set("bound", "2 threads x <=2 operations and 3 threads x 1 operation over {A,B,ACalls,BCalls,ResetACalls,ResetBCalls,ResetCalls} (matryer) / {M1,M2,V} with up-front expectations, plus fixed scenarios whose goroutines register their own expectation through EXPECT() (testify); all schedules with <=2 preemptions")
	} else {
		c.Ev.Set("bound", "quick scenario set with unbounded preemptions (every interleaving of the scheduling points), plus 3 threads x <=2 operations with <=2 preemptions")
	}
	c.Ev.Set("rule", "stateless DFS over all schedules of each thread-program multiset on one shared instance of the freshly generated, instrumented mock; scheduling points = every mutex acquisition and every instrumented access to receiver fields / package variables; per execution: happens-before race check (vector clocks), deadlock, linearizability of the call/return history against the list model (porcupine), forwarded arguments/results, snapshot immutability; states = distinct (scenario, observable outcome) pairs; distinct_nontrivial = scenarios whose schedules produced more than one outcome (threads really interfered)")
	c.Ev.Assume("sequentially consistent memory between scheduling points; Go memory-model effects are covered only through the happens-before race check")
	c.Ev.Assume("testify's own locking is trusted as given (its mutex is redirected to the scheduler, its internals are not instrumented)")
	return nil
}

func lastLine(s string) string {
	s = strings.TrimSpace(s)
	if i := strings.LastIndex(s, "\n"); i >= 0 {
		return s[i+1:]
	}
	return s
}
