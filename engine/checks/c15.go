package checks

import (
	"encoding/json"
	"fmt"
	"path/filepath"
	"strconv"
	"strings"
	"sync"
	"time"

	"verif/engine/assets"
	"verif/engine/core"
)

func init() { Registry["C15"] = C15 }

type c15Result struct {
	Initial     string `json:"initial"`
	Depth       int    `json:"depth"`
	States      int    `json:"states"`
	Transitions int    `json:"transitions"`
	Mutating    int    `json:"mutating_transitions"`
	Outcomes    int    `json:"distinct_answers"`
	Violations  []struct {
		Seq  []string `json:"seq"`
		Op   string   `json:"op"`
		What string   `json:"what"`
		Sig  string   `json:"sig"`
	} `json:"violations"`
	Samples [][]string `json:"samples"`
}

// C15: explicit-state BFS over all operation sequences on the real
// MethodScope / Registry (public API) against the set model A6.
func C15(c *core.Ctx) error {
	if err := c.CopyRepo(); err != nil {
		return err
	}
	if err := c.AddRepoFiles(map[string]string{"internal/verifx/c15/main.go": assets.Must("c15/main.go.txt")}); err != nil {
		return err
	}
	bin := filepath.Join(c.Scratch, "c15drv")
	if err := c.BuildRepoPkg(".", "./internal/verifx/c15", bin); err != nil {
		return err
	}
	depth := 4
	if !core.Quick(c.Tier) {
		depth = 6
	}
	initials := []string{"empty", "vars", "preimport", "dstvars", "inpkg-empty", "inpkg-vars", "inpkg-dstvars", "inpkg-preimport", "latequal", "dupvars", "inpkg-latequal", "inpkg-dupvars", "replaced", "inpkg-replaced"}
	var mu sync.Mutex
	var total c15Result
	outcomes := 0
	core.ParallelFor(len(initials), func(i int) {
		d := depth
		if strings.HasSuffix(initials[i], "replaced") {
			d = 1 // building this state loads the replacement's package (slow): the state itself and one step from it
		}
		r := core.Run(c.Scratch, core.UserEnv(), 40*time.Minute, "", bin, initials[i], strconv.Itoa(d))
		if core.ResourceFailure(r) {
			c.Skip("driver run from initial state %s timed out or was killed", initials[i])
			return
		}
		if r.Exit != 0 {
			c.Report("driver-crash:"+initials[i], "driver terminated abnormally from initial state "+initials[i]+": "+firstN(r.Stderr, 800), map[string]any{"initial": initials[i], "depth": depth})
			return
		}
		var res c15Result
		if err := json.Unmarshal([]byte(strings.TrimSpace(r.Stdout)), &res); err != nil {
			c.Harness("c15 driver output: %v: %s", err, firstN(r.Stdout, 300))
			return
		}
		mu.Lock()
		defer mu.Unlock()
		total.States += res.States
		total.Transitions += res.Transitions
		total.Mutating += res.Mutating
		outcomes += res.Outcomes
		for _, s := range res.Samples {
			c.Ev.Sample(map[string]any{"initial": res.Initial, "ops": s})
		}
		for _, v := range res.Violations {
			key := fmt.Sprintf("%s:%s:%s after %s", res.Initial, v.Sig, v.Op, strings.Join(v.Seq, ";"))
			c.Report(key, v.What, map[string]any{"initial": res.Initial, "sequence": v.Seq, "op": v.Op, "what": v.What})
		}
	})
	// ---- conformance of the in-process route with the CLI route: the same scope-operation sequences, compiled
	// into a probe template and rendered by the real binary, must print the same answers
	cliDepth := 3
	if !core.Quick(c.Tier) {
		cliDepth = 4
	}
	cliChecked := 0
	if err := c.BuildMockery(); err == nil {
		tm := core.Run(c.Scratch, core.UserEnv(), 5*time.Minute, "", bin, "cli-template", strconv.Itoa(cliDepth))
		an := core.Run(c.Scratch, core.UserEnv(), 5*time.Minute, "", bin, "cli-answers", strconv.Itoa(cliDepth))
		if tm.Exit == 0 && an.Exit == 0 {
			tdir := filepath.Join(c.Scratch, "c15t")
			core.WriteTree(tdir, map[string]string{"probe.templ": tm.Stdout})
			cfg := core.M{"template": "file://" + filepath.Join(tdir, "probe.templ"), "formatter": "noop", "require-template-schema-exists": false, "log-level": "error",
				"dir": "{{.InterfaceDir}}", "filename": "mocks_gen_test.go", "packages": core.M{core.ModPath + "/p": core.M{"interfaces": core.M{"I": core.M{}}}}}
			m, err := c.NewModule("c15-cli", map[string]string{"p/p.go": "package p\n\ntype I interface{ M() }\n", ".mockery.yml": core.YAML(cfg)})
			if err == nil {
				r := c.RunMockery(m.Dir, nil)
				out, _ := m.Read("p/mocks_gen_test.go")
				m.Remove()
				if r.Exit != 0 {
					c.Report("cli:render", "the CLI could not render the allocator probe template: "+firstN(r.Stderr, 400), nil)
				} else {
					want := map[string]string{}
					for _, l := range strings.Split(an.Stdout, "\n") {
						if f := strings.SplitN(l, "|", 3); len(f) == 3 {
							want[f[1]] = f[2]
						}
					}
					for _, l := range strings.Split(out, "\n") {
						f := strings.SplitN(l, "|", 3)
						if len(f) != 3 || !strings.HasPrefix(l, "// SEQ|") {
							continue
						}
						cliChecked++
						// AddName prints nothing in a template and "" in the driver
						if want[f[1]] != f[2] {
							c.Report("cli:answers:"+f[1], fmt.Sprintf("sequence #%s: a template rendered by the CLI gets answers %q, the in-process driver got %q", f[1], f[2], want[f[1]]), map[string]any{"sequence": f[1]})
						}
					}
					if cliChecked != len(want) {
						c.Report("cli:count", fmt.Sprintf("%d of %d sequences came back from the CLI", cliChecked, len(want)), nil)
					}
				}
			}
		} else {
			c.Harness("c15 cli route: %s %s", firstN(tm.Stderr, 200), firstN(an.Stderr, 200))
		}
	}
	c.Ev.Set("cli_sequences_compared", cliChecked)
	total.Transitions += cliChecked
	c.Ev.Set("states", total.States)
	c.Ev.Set("transitions", total.Transitions)
	c.Ev.Set("traces_validated_against_impl", total.Transitions)
	c.Ev.Set("evaluations", total.Transitions)
	c.Ev.Set("distinct_nontrivial", total.Mutating)
	c.Ev.Set("distinct_outcomes", outcomes)
	c.Ev.Set("depth", depth)
	c.Ev.Set("initial_states", initials)
	c.Ev.Set("exhaustive", true)
	c.Ev.Set("rule", "BFS over all sequences of {AllocateName, SuggestName, AddName, NameExists} x {a,a1,a2,ret,(x,x0)} and {AddImport} x {x,y,x0} x {p/x,q/x,r/x,p/y,dst}, Imports, PkgQualifier, new MethodScope, to the stated depth from 8 initial states (empty / built by AddVar for real types.Vars / pre-imported, each in-package and not); states canonicalised as (visible-name set over a probe universe, path->qualifier map) and deduplicated; every transition replayed on a fresh real object and compared with the set model; distinct_nontrivial = transitions that changed the model state")
	c.Ev.Assume("canonical state = names visible over a finite probe universe + import map; names the implementation may hold outside the universe are checked for freshness by a second replica at each allocation")
	return nil
}
