package checks

import (
	"fmt"
	"os"
	"path/filepath"
	"reflect"
	"strings"
	"time"

	"gopkg.in/yaml.v3"

	"verif/engine/core"
)

func init() { Registry["C18"] = C18 }

type c18case struct {
	name   string // package path string
	state  string // absent empty content dir symlink noparent readonlydir
	target string // default relative nested absolute
	env    string // a MOCKERY_* variable exported while init runs ("" = none)
	above  string // name of another, valid configuration file in the PARENT directory of the module ("" = none)
	// "@fsroot": the module directory is a direct child of the file-system root (like a container WORKDIR /app)
	fault string // "fsize0": init runs under a file-size limit of 0 (every write to a regular file fails with EFBIG, as on a full disk)
}

func (cs c18case) id() string {
	if cs.fault != "" {
		return fmt.Sprintf("pkg=%q state=%s target=%s fault=%s", cs.name, cs.state, cs.target, cs.fault)
	}
	if cs.env != "" {
		return fmt.Sprintf("pkg=%q state=%s target=%s env=%s", cs.name, cs.state, cs.target, cs.env)
	}
	if cs.above != "" {
		return fmt.Sprintf("pkg=%q state=%s target=%s config-in-parent-dir=%s", cs.name, cs.state, cs.target, cs.above)
	}
	return fmt.Sprintf("pkg=%q state=%s target=%s", cs.name, cs.state, cs.target)
}

const c18pkg = "example.com/m/a"

func C18(c *core.Ctx) error {
	if err := c.BuildMockery(); err != nil {
		return err
	}
	names := []string{c18pkg, "~", "null", "true", "123", "1.5", "a-b", "a.b/c", "a_b", "github.com/Foo/Bar", "x/" + strings.Repeat("long", 80),
		"a: b", "#x", "- x", "-x", "\"q\"", "'", "{a}", "[a]", "*a", "&a", "!t", "%", "@", "|", ">", " lead", "trail ", "a\nb", "yes", "0x1f", "1e3", "a#b", "a:b", "ünï", "a\tb", "?", "<<", "=", "null/x", "~/x", "a,b", "`a`", ".", "..", "a/../b", "", "example.com/m/a|b", "x|y|z", "a.b.c", "packages", "config|all"}
	states := []string{"absent", "empty", "content", "dir", "symlink", "symlink-live-parent", "noparent"}
	targets := []string{"default", "relative", "nested", "absolute", "tilde", "tilde-dir"} // the last two: literal paths that merely start with ~
	var cases []c18case
	seen := map[string]bool{}
	add := func(cs c18case) {
		if !seen[cs.id()] {
			seen[cs.id()] = true
			cases = append(cases, cs)
		}
	}
	add(c18case{c18pkg, "absent", "default", "", "", ""})
	// a configuration file further up the directory tree: the file init writes into the working directory is the
	// nearest one, so the following plain run must use it
	for _, ab := range []string{".mockery.yaml", ".mockery.yml"} {
		add(c18case{c18pkg, "absent", "default", "", ab, ""})
		add(c18case{c18pkg, "content", "default", "", ab, ""})
	}
	add(c18case{c18pkg, "absent", "default", "", "@fsroot", ""})
	add(c18case{c18pkg, "content", "default", "", "@fsroot", ""})
	// the invoking shell's MOCKERY_* overrides are not "the documented defaults": the written file must not depend on them
	for _, e := range []string{"MOCKERY_FILENAME=ci_mocks.go", "MOCKERY_RECURSIVE=true", "MOCKERY_LOG_LEVEL=debug", "MOCKERY_ALL=false", "MOCKERY_DIR=elsewhere", "MOCKERY_TEMPLATE=matryer",
		"MOCKERY_FORMATTER=gofmt", "MOCKERY_PKGNAME=envpkg", "MOCKERY_STRUCTNAME=Env{{.InterfaceName}}", "MOCKERY_FORCE_FILE_WRITE=false", "MOCKERY_INCLUDE_INTERFACE_REGEX=Foo", "MOCKERY_REQUIRE_TEMPLATE_SCHEMA_EXISTS=false"} {
		add(c18case{c18pkg, "absent", "default", e, "", ""})
		add(c18case{c18pkg, "content", "relative", e, "", ""})
	}
	// --config names the target; a MOCKERY_CONFIG left in the shell (naming a file that does not exist, here) does not
	// redirect an explicit flag
	for _, t := range []string{"relative", "nested", "absolute"} {
		add(c18case{c18pkg, "absent", t, "MOCKERY_CONFIG=from_env.yml", "", ""})
		add(c18case{c18pkg, "content", t, "MOCKERY_CONFIG=from_env.yml", "", ""})
	}
	for _, n := range names {
		add(c18case{n, "absent", "default", "", "", ""})
	}
	// a write fault while the new file is being written: init may fail (what it leaves behind then is not stated),
	// but it may not report success unless the file it wrote passes every round-trip check below
	for _, t := range targets {
		add(c18case{name: c18pkg, state: "absent", target: t, fault: "fsize0"})
		add(c18case{name: c18pkg, state: "content", target: t, fault: "fsize0"})
	}
	for _, s := range states {
		for _, t := range targets {
			add(c18case{c18pkg, s, t, "", "", ""})
		}
	}
	for _, n := range names {
		add(c18case{n, "content", "default", "", "", ""})
	}
	if !core.Quick(c.Tier) {
		for _, n := range names {
			for _, s := range states {
				for _, t := range targets {
					add(c18case{n, s, t, "", "", ""})
				}
			}
		}
	}
	modFiles := map[string]string{
		"go.mod": "module example.com/m\n\ngo 1.23\n\nrequire github.com/stretchr/testify v1.10.0\n",
		"a/a.go": "package a\n\ntype Foo interface{ M(x int) error }\n\ntype bar interface{ N() }\n\ntype Gen[T any] interface{ G(t T) T }\n\ntype NotIface struct{}\n\nvar _ bar\n",
		"b/b.go": "package b\n\ntype Other interface{ O() }\n",
		"bystander.txt": "keep\n",
	}
	gosum, _ := os.ReadFile(filepath.Join(c.Repo, "go.sum"))
	modFiles["go.sum"] = string(gosum)
	outcomes := map[string]int{}
	outc := make([]string, len(cases))
	core.ParallelFor(len(cases), func(i int) {
		if c.Expired() {
			return
		}
		cs := cases[i]
		id := cs.id()
		base := filepath.Join(c.Scratch, "w", fmt.Sprint(i))
		root := base
		defer os.RemoveAll(base)
		if cs.above == "@fsroot" {
			d, err := os.MkdirTemp("/", "mcx-c18-")
			if err != nil {
				c.Ev.Assume("the file-system root is not writable here: the case 'module directly below /' was not run")
				outc[i] = "not-run"
				return
			}
			defer os.RemoveAll(d)
			root = d
		} else if cs.above != "" {
			root = filepath.Join(base, "outer", "inner")
			// valid, and about another package: if it were used, b would be mocked instead of the named package
			core.Must(core.WriteTree(filepath.Join(base, "outer"), map[string]string{cs.above: "packages:\n  example.com/m/b:\n    config:\n      all: true\n"}))
		}
		core.Must(core.WriteTree(root, modFiles))
		var target string // path as passed / absolute path
		var args []string
		switch cs.target {
		case "default":
			target = filepath.Join(root, ".mockery.yml")
		case "relative":
			target = filepath.Join(root, "cfg.yaml")
			args = []string{"--config", "cfg.yaml"}
		case "nested":
			target = filepath.Join(root, "conf", "d", "m.yml")
			args = []string{"--config", "conf/d/m.yml"}
		case "absolute":
			target = filepath.Join(root, "abs", "m.yml")
			args = []string{"--config", target}
		case "tilde":
			target = filepath.Join(root, "~mockery.yml")
			args = []string{"--config", "~mockery.yml"}
		case "tilde-dir":
			target = filepath.Join(root, "~", "mockery.yml")
			args = []string{"--config", "~/mockery.yml"}
		}
		if cs.state != "noparent" {
			os.MkdirAll(filepath.Dir(target), 0o755)
		} else if cs.target == "default" {
			// the default target's parent is the cwd, which always exists: use a deleted nested dir instead
			target = filepath.Join(root, "gone", ".mockery.yml")
			args = []string{"--config", "gone/.mockery.yml"}
		}
		userContent := "# user file\npackages:\n  keep/me: {}\n"
		switch cs.state {
		case "empty":
			os.WriteFile(target, nil, 0o644)
		case "content":
			os.WriteFile(target, []byte(userContent), 0o644)
		case "dir":
			os.MkdirAll(filepath.Join(target, "sub"), 0o755)
		case "symlink":
			os.Symlink(filepath.Join(root, "nowhere", "x.yml"), target)
		case "symlink-live-parent":
			// dangling link whose destination directory exists: a non-exclusive create would write through it
			os.MkdirAll(filepath.Join(root, "shared"), 0o755)
			os.Symlink(filepath.Join(root, "shared", "x.yml"), target)
		}
		before := core.Snapshot(root)
		cmd := append([]string{"init"}, args...)
		cmd = append(cmd, "--", cs.name)
		var initEnv []string
		if cs.env != "" {
			initEnv = []string{cs.env}
		}
		// a private HOME (outside the snapshotted tree: tool caches may appear there): no configuration file may
		home := filepath.Join(c.Scratch, "home", fmt.Sprint(i))
		os.MkdirAll(home, 0o755)
		defer os.RemoveAll(home)
		initEnv = append(initEnv, "HOME="+home)
		var r core.Result
		if cs.fault == "fsize0" {
			// mockery's own output goes to pipes, which the limit does not apply to
			r = core.Run(root, core.UserEnv(initEnv...), time.Minute, "", "bash", append([]string{"-c", `ulimit -f 0; exec "$0" "$@"`, c.Mockery}, cmd...)...)
		} else {
			r = core.Run(root, core.UserEnv(initEnv...), time.Minute, "", c.Mockery, cmd...)
		}
		after := core.Snapshot(root)
		if strayHome, _ := filepath.Glob(filepath.Join(home, "*.y*ml")); len(strayHome) > 0 {
			c.Report("wrote-into-home:"+id, fmt.Sprintf("init wrote %v under $HOME; the target path was %s", strayHome, target), map[string]any{"case": id, "cmd": cmd})
			return
		}
		c.Ev.Add("transitions", 1)
		c.Ev.Add("evaluations", 1)
		c.Ev.Distinct("states", id)
		rel, _ := filepath.Rel(root, target)
		replay := map[string]any{"case": id, "cmd": cmd, "target": rel, "exit": r.Exit, "stderr": firstN(r.Stderr, 400)}
		if core.ResourceFailure(r) {
			c.Skip("%s: run timed out or was killed", id)
			return
		}
		if r.Panicked() {
			c.Report("crash:"+id, "init crashed: "+firstN(r.Stderr, 600), replay)
			return
		}
		added, removed, changed := core.DiffSnapshots(before, after)
		outc[i] = fmt.Sprintf("exit=%d added=%d changed=%d", r.Exit, len(added), len(changed))
		exists := cs.state == "empty" || cs.state == "content" || cs.state == "dir" || cs.state == "symlink" || cs.state == "symlink-live-parent"
		if exists {
			if r.Exit == 0 {
				c.Report("exists-exit0:"+id, "target exists but init reported success", replay)
			}
			if len(added)+len(removed)+len(changed) > 0 {
				c.Report("exists-modified:"+id, fmt.Sprintf("target exists but the tree changed: added %v removed %v changed %v", added, removed, changed), replay)
			}
			return
		}
		if len(removed) > 0 || len(changed) > 0 {
			c.Report("clobber:"+id, fmt.Sprintf("init changed existing files: removed %v changed %v", removed, changed), replay)
			return
		}
		if r.Exit != 0 && cs.fault != "" {
			return // the injected fault made init fail, and it said so
		}
		if r.Exit != 0 {
			// failure (e.g. missing parent directory): nothing may have been left behind except directories
			for _, a := range added {
				if after[a] != "dir" {
					c.Report("failed-but-wrote:"+id, fmt.Sprintf("init failed (exit %d) but left %s behind", r.Exit, a), replay)
				}
			}
			if cs.state == "absent" {
				c.Report("init-failed:"+id, fmt.Sprintf("init failed on an absent target: exit %d: %s", r.Exit, firstN(r.Stderr, 300)), replay)
			}
			return
		}
		// success: exactly the target (plus parents) appeared
		for _, a := range added {
			if a != rel && !(after[a] == "dir" && strings.HasPrefix(rel, a+"/")) {
				c.Report("stray:"+id, "init created an unexpected path: "+a, replay)
			}
		}
		written, err := os.ReadFile(target)
		if err != nil {
			c.Report("nofile:"+id, "init reported success but the target does not exist", replay)
			return
		}
		replay["written"] = string(written)
		var doc map[string]any
		if err := yaml.Unmarshal(written, &doc); err != nil {
			c.Report("badyaml:"+id, "written file is not valid YAML: "+err.Error(), replay)
			return
		}
		pk, _ := doc["packages"].(map[string]any)
		if len(pk) != 1 {
			c.Report(fmt.Sprintf("roundtrip:pkg=%q", cs.name), fmt.Sprintf("written file has packages %v, want exactly the key %q", core.SortedKeys(pk), cs.name), replay)
			return
		}
		if _, ok := pk[cs.name]; !ok {
			c.Report(fmt.Sprintf("roundtrip:pkg=%q", cs.name), fmt.Sprintf("package key does not load back unchanged: got %q want %q", core.SortedKeys(pk)[0], cs.name), replay)
			return
		}
		// accepted by mockery itself, and equal to a minimal hand-written file (differential)
		r2 := core.Run(root, core.UserEnv(), time.Minute, "", c.Mockery, "showconfig", "--config", target)
		c.Ev.Add("transitions", 1)
		if r2.Exit != 0 || r2.Panicked() {
			c.Report("loader:"+id, "mockery does not accept the file init wrote: "+firstN(r2.Stderr+r2.Stdout, 500), replay)
			return
		}
		minimal := filepath.Join(root, "minimal-ref.yml")
		mb, _ := yaml.Marshal(map[string]any{"packages": map[string]any{cs.name: map[string]any{"config": map[string]any{"all": true}}}})
		os.WriteFile(minimal, mb, 0o644)
		r3 := core.Run(root, core.UserEnv(), time.Minute, "", c.Mockery, "showconfig", "--config", minimal)
		c.Ev.Add("transitions", 1)
		var t2, t3 map[string]any
		e2 := yaml.Unmarshal([]byte(r2.Stdout), &t2)
		e3 := yaml.Unmarshal([]byte(r3.Stdout), &t3)
		if r3.Exit != 0 || e2 != nil || e3 != nil {
			c.Harness("showconfig reference failed for %s: %v %v %s", id, e2, e3, firstN(r3.Stderr, 200))
			return
		}
		// the config file path itself differs
		stripConfigPath(t2)
		stripConfigPath(t3)
		if !reflect.DeepEqual(c19norm(t2), c19norm(t3)) {
			c.Report("defaults:"+id, "effective config of the init file differs from a minimal file with only packages: "+strings.Join(c19diff("", c19norm(t3), c19norm(t2)), "; "), replay)
			return
		}
		c.Ev.Distinct("distinct_nontrivial", id)
		if cs.name == c18pkg {
			// plain run generates mocks for all interfaces of the package
			margs := []string{}
			if cs.target != "default" || cs.state == "noparent" {
				margs = append(margs, args...)
			}
			r4 := core.Run(root, core.UserEnv(), 2*time.Minute, "", c.Mockery, margs...)
			c.Ev.Add("transitions", 1)
			if r4.Exit != 0 {
				c.Report("generate:"+id, "plain mockery run with the init file failed: "+firstN(r4.Stderr+r4.Stdout, 600), replay)
				return
			}
			out, _ := os.ReadFile(filepath.Join(root, "a", "mocks_test.go"))
			for _, want := range []string{"type MockFoo struct", "type mockbar struct", "type MockGen[T any] struct"} {
				if !strings.Contains(string(out), want) {
					c.Report("generate-missing:"+id, "generated file lacks `"+want+"`", replay)
				}
			}
			if strings.Contains(string(out), "NotIface") || fileExists(filepath.Join(root, "b", "mocks_test.go")) {
				c.Report("generate-extra:"+id, "generated mocks for something that is not an interface of the named package", replay)
			}
			if cs.target == "default" && cs.state == "absent" {
				r5 := core.Run(root, core.UserEnv(), 3*time.Minute, "", "go", "vet", "./a/")
				if r5.Exit != 0 {
					c.Report("generate-compile:"+id, "mocks generated from the init file do not compile: "+firstN(r5.Stderr, 600), replay)
				}
			}
		}
		if i%23 == 0 {
			c.Ev.Sample(replay)
		}
	})
	done := 0
	for _, o := range outc {
		if o != "" {
			outcomes[o]++
			done++
		}
	}
	c.Ev.Set("traces_validated_against_impl", done)
	c.Ev.Set("distinct_outcomes", len(outcomes))
	c.Ev.Set("outcome_histogram", outcomes)
	c.Ev.Set("exhaustive", !c.Expired() && done == len(cases))
	c.Ev.Set("cases", len(cases))
	c.Ev.Set("bound", map[bool]string{true: "dev<=1 from (valid path, absent, default target) over 47 package strings, 6 target states x 4 --config spellings, and every package string against an existing user file", false: "full product 47 package strings x 6 target states x 4 --config spellings"}[core.Quick(c.Tier)])
	c.Ev.Set("rule", "each case = fresh scratch module + initial state of the target path + package string (+ one of 12 MOCKERY_* variables exported while init runs, for an absent and for an occupied target; + init run under a file-size limit of 0 so that writing the new file fails: success may only be reported for a file that round-trips); `mockery init` from the working tree is run once; whole-tree content snapshot before/after; written file parsed as YAML, loaded with `mockery showconfig`, compared (differential) with a minimal hand-written config, and for the real package a plain `mockery` run must mock exactly all its interfaces; non-trivial = init succeeded and all round-trip checks were evaluated")
	c.Ev.Assume("strings that cannot be Go import paths are checked for no-crash, no-clobber and YAML round trip only")
	return nil
}

func fileExists(p string) bool { _, err := os.Lstat(p); return err == nil }

// stripConfigPath removes the `config: <path of the loaded file>` entries,
// which necessarily differ between two files.
func stripConfigPath(v any) {
	switch t := v.(type) {
	case map[string]any:
		if _, ok := t["config"].(string); ok {
			delete(t, "config")
		}
		for _, x := range t {
			stripConfigPath(x)
		}
	case []any:
		for _, x := range t {
			stripConfigPath(x)
		}
	}
}
