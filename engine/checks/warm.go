package checks

import (
	"time"

	"verif/engine/core"
	"verif/engine/gocheck"
)

// The warm module pulls in the standard-library and testify packages the scratch modules of the checks import,
// so that their compiled forms are in the base build cache every check links from.
const warmSrc = `package p

import (
	"context"
	"encoding/json"
	"fmt"
	"io"
	"net/http"
	"net/url"
	"os"
	"reflect"
	"sort"
	"strings"
	"sync"
	"testing"
	"time"
	"unsafe"

	"github.com/stretchr/testify/assert"
	"github.com/stretchr/testify/mock"
	"github.com/stretchr/testify/require"
)

var _ = []any{context.Background, json.Marshal, fmt.Sprint, io.EOF, http.StatusOK, url.Parse, os.Exit, reflect.TypeOf, sort.Strings,
	strings.Join, &sync.Mutex{}, testing.Short, time.Now, unsafe.Pointer(nil), assert.Equal, &mock.Mock{}, require.Equal}
`

func init() {
	warmers = append(warmers, func(c *core.Ctx) {
		m, err := c.NewModule("warm", map[string]string{"p/p.go": warmSrc, "main.go": "package main\n\nimport _ \"example.com/m/p\"\n\nfunc main() {}\n"})
		if err != nil {
			return
		}
		core.Run(m.Dir, core.UserEnv(), 10*time.Minute, "", "go", "build", "-o", "/dev/null", ".")
		core.Run(m.Dir, core.UserEnv(), 10*time.Minute, "", "go", "vet", "./...")
		gocheck.Load(m.Dir, core.UserEnv(), "", true, "./...")
	})
}
