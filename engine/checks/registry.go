// Package checks holds one file per property.
package checks

import (
	"encoding/json"
	"fmt"
	"os"

	"verif/engine/core"
)

type CheckFunc func(c *core.Ctx) error

var Registry = map[string]CheckFunc{}

// Replay prints a recorded violation; the replay file holds the complete
// input of the failing case (files, config, choices) so it can be re-run by
// hand or by `mcx check <id>` (which re-explores the same case first, as cases
// are ordered simplest-first).
func Replay(path string) int {
	b, err := os.ReadFile(path)
	if err != nil {
		fmt.Fprintln(os.Stderr, err)
		return 2
	}
	var v map[string]any
	if err := json.Unmarshal(b, &v); err != nil {
		fmt.Fprintln(os.Stderr, err)
		return 2
	}
	out, _ := json.MarshalIndent(v, "", "  ")
	fmt.Println(string(out))
	if id, ok := v["property"].(string); ok {
		if fn, ok := Registry[id]; ok {
			os.Setenv("VERIF_REPLAY_KEY", fmt.Sprint(v["key"]))
			c, err := core.NewCtx(id, "quick")
			if err != nil {
				return 2
			}
			defer c.Close()
			if err := fn(c); err != nil {
				c.Harness("%v", err)
			}
			return c.Finish()
		}
	}
	return 0
}

// Warm pre-builds things whose first build is slow (cold GOCACHE).
var warmers []func(c *core.Ctx)

func Warm(c *core.Ctx) {
	for _, w := range warmers {
		w(c)
	}
}
