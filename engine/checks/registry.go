// Package checks holds one file per property.
package checks

import (
	"encoding/json"
	"fmt"
	"os"
	"strings"

	"verif/engine/core"
)

type CheckFunc func(c *core.Ctx) error

var Registry = map[string]CheckFunc{}

// Replay prints a recorded violation (the replay file holds the complete input
// of the failing case: files, config, choices, schedule) and re-runs the check
// of that property in replay mode: only a violation with the recorded key
// counts, so the exit status says whether that very violation still reproduces
// on the current tree (1 = reproduced, 0 = gone). The real evidence file is
// not touched.
func Replay(path string) int {
	b, err := os.ReadFile(path)
	if err != nil {
		fmt.Fprintln(os.Stderr, err)
		return 2
	}
	var v map[string]any
	if err := json.Unmarshal(b, &v); err != nil {
		fmt.Fprintln(os.Stderr, err)
		return 2
	}
	out, _ := json.MarshalIndent(v, "", "  ")
	fmt.Println(string(out))
	if id, ok := v["property"].(string); ok {
		if fn, ok := Registry[id]; ok {
			os.Setenv("VERIF_REPLAY_KEY", fmt.Sprint(v["key"]))
			// the replayed run must not overwrite the real evidence
			if os.Getenv("VERIF_EVIDENCE_DIR") == "" {
				d, _ := os.MkdirTemp("", "mcx-replay-ev-")
				defer os.RemoveAll(d)
				os.Setenv("VERIF_EVIDENCE_DIR", d)
			}
			tier := "quick"
			if strings.Contains(path, "thorough-") {
				tier = "thorough"
			}
			c, err := core.NewCtx(id, tier)
			if err != nil {
				return 2
			}
			defer c.Close()
			if err := fn(c); err != nil {
				c.Harness("%v", err)
			}
			return c.Finish()
		}
	}
	return 0
}

// Warm pre-builds things whose first build is slow (cold GOCACHE).
var warmers []func(c *core.Ctx)

func Warm(c *core.Ctx) {
	for _, w := range warmers {
		w(c)
	}
}
