#!/bin/bash
# Builds bin/mcx from files on disk only (offline) and warms the Go build cache.
set -euo pipefail
cd "$(dirname "$0")"
export GOPROXY=off GOFLAGS=-mod=mod GOSUMDB=off GOTOOLCHAIN=local
mkdir -p bin evidence replays
(cd engine && go build -o ../bin/mcx ./cmd/mcx)
# warm: build mockery once from a scratch copy of the tree (never in place)
./bin/mcx warm || true
echo "setup ok"
